#!/usr/bin/env python3
"""Records the result lines of seeded_official.sh (a log file) in seeded/<id>/meta.json."""
import json, os, re, sys
log = sys.argv[1]
for l in open(log):
    p = l.split()
    if len(p) >= 3 and p[2].startswith('rc='):
        n = p[0]
        mp = os.path.join(os.path.dirname(os.path.abspath(__file__)), 'seeded', n, 'meta.json')
        if not os.path.exists(mp):
            continue
        m = json.load(open(mp))
        m['official_run'] = {
            'how': 'git -C /repo apply patch.diff; python3 check.py %s quick (VERIF_OUT redirected); git -C /repo checkout -- .' % p[1],
            'result': p[2] + ' (1 = VIOLATION reported)',
            'signatures': sorted(set(re.findall(r'(\S+) \[stage', l))),
        }
        json.dump(m, open(mp, 'w'), indent=1)
        print(n, p[2])
