#!/usr/bin/env python3
"""Development aid: run checks against seeded changes on a SCRATCH copy of /repo.

  python3 mutate.py [--tier quick] [--keep] [--suite] <patch.diff>... | --dir mutants | --seeded

For each patch: a scratch copy of /repo's tracked files (outside /repo and
/verif) gets the patch applied; the checks named in the patch header
(`# expect: C05 C02`, or --checks) are run through check.py with VERIF_REPO /
VERIF_HARNESS / VERIF_OUT pointing at the scratch copy; the verdict per check is
printed and appended to mutants/RESULTS.jsonl. --suite also runs the
repository's own test suite on the mutated copy (must stay green for a mutant
to be "realistic"). The scratch directory is removed at the end.
"""
import json
import os
import re
import shutil
import subprocess
import sys
import time

HERE = os.path.dirname(os.path.abspath(__file__))


def sh(cmd, **kw):
    return subprocess.run(cmd, shell=isinstance(cmd, str), capture_output=True, text=True, **kw)


def main():
    args = sys.argv[1:]
    tier = "quick"
    keep = False
    suite = False
    checks_override = None
    src_override = None
    patches = []
    work = "/tmp/mutwork-%d" % os.getpid()
    i = 0
    while i < len(args):
        a = args[i]
        if a == "--tier":
            i += 1
            tier = args[i]
        elif a == "--keep":
            keep = True
        elif a == "--suite":
            suite = True
        elif a == "--work":
            i += 1
            work = args[i]
        elif a == "--src":
            i += 1
            src_override = args[i]
        elif a == "--checks":
            i += 1
            checks_override = args[i].split(",")
        elif a == "--dir":
            i += 1
            d = args[i]
            patches += sorted(os.path.join(d, f) for f in os.listdir(d) if f.endswith(".diff"))
        elif a == "--seeded":
            sd = os.path.join(HERE, "seeded")
            for n in sorted(os.listdir(sd)):
                p = os.path.join(sd, n, "patch.diff")
                if os.path.exists(p):
                    patches.append(p)
        else:
            patches.append(a)
        i += 1
    repo = os.path.join(work, "repo")
    harness = os.path.join(work, "harness")
    out = os.path.join(work, "out")
    os.makedirs(work, exist_ok=True)
    os.makedirs(out, exist_ok=True)
    # scratch copy of the tracked tree (+ Cargo.lock, which /repo ignores)
    if not os.path.exists(repo):
        os.makedirs(repo)
        files = sh(["git", "-C", "/repo", "ls-files", "-z"]).stdout.split("\0")
        for f in files:
            if not f:
                continue
            dst = os.path.join(repo, f)
            os.makedirs(os.path.dirname(dst), exist_ok=True)
            shutil.copy2(os.path.join("/repo", f), dst)
        if os.path.exists("/repo/Cargo.lock"):
            shutil.copy2("/repo/Cargo.lock", os.path.join(repo, "Cargo.lock"))
        sh("git init -q && git add -A && git -c user.email=a@b -c user.name=x commit -qm base", cwd=repo)
    if not os.path.exists(harness):
        os.makedirs(harness)
        ct = open(os.path.join(HERE, "harness", "Cargo.toml")).read().replace('"/repo/', '"%s/' % repo)
        open(os.path.join(harness, "Cargo.toml"), "w").write(ct)
        shutil.copy2(os.path.join(HERE, "harness", "Cargo.lock"), os.path.join(harness, "Cargo.lock"))
        os.symlink(src_override or os.path.join(HERE, "harness", "src"), os.path.join(harness, "src"))
    env = dict(os.environ, VERIF_REPO=repo, VERIF_HARNESS=harness, VERIF_OUT=out, CARGO_NET_OFFLINE="true")
    results = []
    for p in patches:
        name = os.path.basename(os.path.dirname(p)) if os.path.basename(p) == "patch.diff" else os.path.basename(p)[:-5]
        text = open(p).read()
        m = re.search(r"^# expect: (.*)$", text, re.M)
        mh = re.search(r"^# expect-held: (.*)$", text, re.M)
        benign = mh is not None
        if benign:
            m = mh
        checks = checks_override or (m.group(1).split() if m else [])
        meta = os.path.join(os.path.dirname(p), "meta.json")
        if not checks and os.path.exists(meta):
            mj = json.load(open(meta))
            checks = mj.get("checks") or [mj.get("property")]
        sh("git checkout -q -- . && git clean -qfd", cwd=repo)
        r = sh(["git", "apply", "--whitespace=nowarn", os.path.abspath(p)], cwd=repo)
        if r.returncode != 0:
            print("%-44s APPLY-FAILED %s" % (name, r.stderr.strip()[:200]), flush=True)
            results.append({"mutant": name, "error": "apply failed"})
            continue
        row = {"mutant": name, "tier": tier, "checks": {}, "benign": benign}
        if suite:
            t0 = time.time()
            r = sh("cargo test --workspace --no-fail-fast --offline 2>&1 | grep -E '^test result|FAILED|^error' | sort | uniq -c | head -20", cwd=repo, env=env)
            ok = "FAILED" not in r.stdout and "error" not in r.stdout and "test result: ok" in r.stdout
            row["suite_green"] = ok
            print("%-44s suite %s (%.0fs)" % (name, "green" if ok else "RED", time.time() - t0), flush=True)
            if not ok:
                print(r.stdout[-800:])
        for c in checks:
            t0 = time.time()
            r = subprocess.run([sys.executable, os.path.join(HERE, "check.py"), c, tier], env=env, capture_output=True, text=True, cwd=HERE)
            sigs = re.findall(r"signature: (\S+)", r.stdout)
            verdict = {0: "held(MISSED)", 1: "VIOLATION", 2: "inconclusive"}.get(r.returncode, "rc=%d" % r.returncode)
            if benign:
                verdict = {0: "held(ok)", 1: "FALSE-ALARM", 2: "inconclusive"}.get(r.returncode, "rc=%d" % r.returncode)
            row["checks"][c] = {"rc": r.returncode, "sigs": sorted(set(sigs))[:6], "wall_s": round(time.time() - t0, 1)}
            print("%-44s %s %-13s %5.1fs %s" % (name, c, verdict, time.time() - t0, ",".join(sorted(set(sigs))[:4])), flush=True)
            if r.returncode == 2:
                print("   " + "\n   ".join(l for l in r.stdout.splitlines() if "INCONCLUSIVE" in l or "build failed" in l or "error" in l)[:1500])
        results.append(row)
        with open(os.path.join(HERE, "mutants", "RESULTS.jsonl"), "a") as fh:
            fh.write(json.dumps(row) + "\n")
    sh("git checkout -q -- . && git clean -qfd", cwd=repo)
    if not keep:
        shutil.rmtree(work, ignore_errors=True)
    missed = [r["mutant"] for r in results if any(v["rc"] == 0 for v in r.get("checks", {}).values()) and not r.get("benign")]
    alarms = [r["mutant"] for r in results if r.get("benign") and any(v["rc"] == 1 for v in r.get("checks", {}).values())]
    if alarms:
        print("FALSE ALARMS on property-preserving changes: %s" % alarms)
    print("done: %d mutants, fully or partly missed: %s" % (len(results), missed))


if __name__ == "__main__":
    main()
