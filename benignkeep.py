#!/usr/bin/env python3
"""Takes the property-preserving changes a sub-agent left in <worktree>/BENIGN/benign*.diff,
confirms each on a scratch copy (applies, suite green), runs the checks that look at the
touched crates, and keeps it as /verif/benign/agents/<prop>-<n>.diff with an
`# expect-held:` header (plus the agent's README as <prop>.README.md).

  python3 benignkeep.py <worktree> <prop> [--work /tmp/mutwork-a]

Prints one line per (patch, check): held(ok) / FALSE-ALARM? / inconclusive. A reported
violation is NOT automatically a false alarm: the change may break the property after all -
that is decided by reading the witness."""
import os
import re
import shutil
import subprocess
import sys

HERE = os.path.dirname(os.path.abspath(__file__))
RELATED = [
    ("sharks/", ["C06", "C07", "C08", "C02", "C16"]),
    ("adss/", ["C16", "C05", "C08", "C02", "C03"]),
    ("star/src", ["C01", "C02", "C03", "C04", "C08", "C17"]),
    ("ppoprf/src/ggm.rs", ["C10", "C11", "C14", "C12"]),
    ("ppoprf/src/ppoprf.rs", ["C12", "C13", "C14", "C15", "C09"]),
    ("ppoprf/src/lib.rs", ["C10", "C14"]),
    ("star-wasm/", ["C17", "C09"]),
    ("star/test-utils", ["C18"]),
]


def main():
    wt, prop = sys.argv[1], sys.argv[2]
    work = "/tmp/mutwork-a"
    if "--work" in sys.argv:
        work = sys.argv[sys.argv.index("--work") + 1]
    bd = os.path.join(wt, "BENIGN")
    out = os.path.join(HERE, "benign", "agents")
    os.makedirs(out, exist_ok=True)
    if os.path.exists(os.path.join(bd, "README.md")):
        shutil.copy2(os.path.join(bd, "README.md"), os.path.join(out, prop + ".README.md"))
    for f in sorted(os.listdir(bd)):
        if not f.endswith(".diff"):
            continue
        n = re.sub(r"\D", "", f) or "0"
        text = open(os.path.join(bd, f)).read()
        files = re.findall(r"^\+\+\+ b/(\S+)", text, re.M)
        checks = [prop]
        for pref, cs in RELATED:
            if any(x.startswith(pref) for x in files):
                for c in cs:
                    if c not in checks:
                        checks.append(c)
        checks = checks[:5]
        dst = os.path.join(out, "%s-%s.diff" % (prop, n))
        open(dst, "w").write("# benign (sub-agent) %s-%s\n# expect-held: %s\n%s" % (prop, n, " ".join(checks), text))
        r = subprocess.run([sys.executable, os.path.join(HERE, "mutate.py"), "--work", work, "--keep", "--suite", dst],
                           capture_output=True, text=True)
        lines = [l for l in r.stdout.splitlines() if not l.startswith("   ")]
        print("\n".join(lines), flush=True)
        if "APPLY-FAILED" in r.stdout or "suite RED" in r.stdout:
            os.rename(dst, dst + ".rejected")


if __name__ == "__main__":
    main()
