#!/usr/bin/env python3
"""Confirms a sub-agent's seeded change in its scratch worktree and, if it
holds up, keeps it as /verif/seeded/<name>/ (patch.diff, demonstration, meta.json).

  python3 seedkeep.py <worktree> <name> <property> [--checks C01,C06]

Confirmation (all done here, not taken from the sub-agent's word):
  1. patch.diff applies to a clean checkout of the worktree
  2. with the patch: workspace builds, the existing suite is green
  3. with the patch: the demonstration FAILS
  4. without the patch: the demonstration PASSES
"""
import json
import os
import shutil
import subprocess
import sys
import time

HERE = os.path.dirname(os.path.abspath(__file__))


def sh(cmd, cwd, env=None, timeout=3600):
    r = subprocess.run(cmd, shell=True, cwd=cwd, env=env, capture_output=True, text=True, timeout=timeout)
    return r.returncode, (r.stdout or "") + (r.stderr or "")


def main():
    wt, name, prop = sys.argv[1], sys.argv[2], sys.argv[3]
    checks = [prop]
    if "--checks" in sys.argv:
        checks = sys.argv[sys.argv.index("--checks") + 1].split(",")
    sd = os.path.join(wt, "SEEDED")
    patch = os.path.join(sd, "patch.diff")
    demo_cmd = open(os.path.join(sd, "demo_cmd.txt")).read().strip().splitlines()
    demo_cmd = [l for l in demo_cmd if l.strip() and not l.strip().startswith("#")][-1].strip()
    env = dict(os.environ, CARGO_TARGET_DIR=os.path.join(wt, "target"), CARGO_NET_OFFLINE="true")
    log = {}
    # demo files: everything in SEEDED/ that is a .rs file gets copied to where the agent left it in the tree
    demo_files = []
    rc, out = sh("git status --porcelain --untracked-files=all", wt)
    for l in out.splitlines():
        f = l[3:].strip()
        if l.startswith("??") and not f.startswith("SEEDED/") and not f.startswith("target") and f != "Cargo.lock":
            demo_files.append(f)
    # clean tracked files
    sh("git checkout -q -- .", wt)
    rc, out = sh("git apply --check %s" % patch, wt)
    if rc != 0:
        print("REJECT: patch does not apply:", out[:300])
        return 1
    # 4. without the patch the demo passes
    t0 = time.time()
    rc0, out0 = sh(demo_cmd, wt, env)
    log["demo_without_patch"] = {"rc": rc0, "tail": out0[-600:]}
    print("demo without patch: rc=%d (%.0fs)" % (rc0, time.time() - t0))
    sh("git apply %s" % patch, wt)
    t0 = time.time()
    rc1, out1 = sh(demo_cmd, wt, env)
    log["demo_with_patch"] = {"rc": rc1, "tail": out1[-900:]}
    print("demo with patch:    rc=%d (%.0fs)" % (rc1, time.time() - t0))
    t0 = time.time()
    # the demo file must not count as part of the existing suite: move it aside
    rc, out = sh("git status --porcelain --untracked-files=all", wt)
    for l in out.splitlines():
        f = l[3:].strip()
        if l.startswith("??") and not f.startswith("SEEDED/") and not f.startswith("target") and f != "Cargo.lock" and f not in demo_files:
            demo_files.append(f)
    moved = []
    for f in demo_files:
        if f.endswith(".rs") and "/tests/" in f or f.endswith(".rs") and "/examples/" in f:
            shutil.move(os.path.join(wt, f), os.path.join(wt, f + ".aside"))
            moved.append(f)
    rc2, out2 = sh("cargo test --workspace --no-fail-fast --offline 2>&1 | grep -E '^test result|FAILED|^error|panicked' ", wt, env)
    for f in moved:
        shutil.move(os.path.join(wt, f + ".aside"), os.path.join(wt, f))
    green = "FAILED" not in out2 and "error" not in out2 and out2.count("test result: ok") >= 6
    npass = sum(int(l.split("ok. ")[1].split(" passed")[0]) for l in out2.splitlines() if l.startswith("test result: ok."))
    log["suite_with_patch"] = {"green": green, "passed": npass, "tail": out2[-700:]}
    print("suite with patch:   %s, %d passed (%.0fs)" % ("green" if green else "RED", npass, time.time() - t0))
    sh("git apply -R %s" % patch, wt)
    ok = rc0 == 0 and rc1 != 0 and green
    if not ok:
        print("REJECT: confirmation failed")
        print(json.dumps(log, indent=1)[:3000])
        return 1
    dst = os.path.join(HERE, "seeded", name)
    os.makedirs(dst, exist_ok=True)
    shutil.copy2(patch, os.path.join(dst, "patch.diff"))
    for f in os.listdir(sd):
        if f not in ("patch.diff",) and os.path.isfile(os.path.join(sd, f)) and os.path.getsize(os.path.join(sd, f)) < 200000:
            shutil.copy2(os.path.join(sd, f), os.path.join(dst, f))
    readme = open(os.path.join(sd, "README.md")).read() if os.path.exists(os.path.join(sd, "README.md")) else ""
    meta = {
        "property": prop,
        "checks": checks,
        "origin": "written by an independent sub-agent that saw only the property text and a scratch worktree",
        "needs_to_manifest": "see README.md",
        "demo_files_in_tree": demo_files,
        "demo_cmd": demo_cmd,
        "confirmed_by": "seedkeep.py in the scratch worktree: patch applies; suite green with patch (%d tests passed); demo rc=%d with patch, rc=0 without" % (npass, rc1),
        "confirmation_log": log,
        "readme_head": readme[:1500],
    }
    json.dump(meta, open(os.path.join(dst, "meta.json"), "w"), indent=1)
    print("KEPT as", dst)
    return 0


if __name__ == "__main__":
    sys.exit(main())
