"""Sanitizer / interpreter / fuzzer stages (thorough tier). Filled in below."""


def run_special(kind, st, prop, tier, seed, chk):
    return None, 0.0
