"""Sanitizer / interpreter / fuzzer stages of the thorough tier.

Every stage returns the same record as check.run_mon (result JSON of the monitor
run under the engine, plus `extra_violations` derived from the engine's own
reports). An engine that cannot run yields None: the stage is written to the
evidence as `unavailable` and never becomes a violation.
"""
import glob
import json
import os
import re
import shutil
import subprocess
import time

REPO_FRAME = re.compile(r"(/repo/(adss|sharks|star|ppoprf|star-wasm)[^\s:]*\.rs)")


def _first_repo_frame(block):
    m = REPO_FRAME.search(block)
    return m.group(1).split("/repo/")[-1] if m else None


def run_special(kind, st, prop, tier, seed, chk):
    t0 = time.time()
    if kind == "tsan":
        return _tsan(st, prop, tier, seed, chk), time.time() - t0
    if kind == "miri":
        return _miri(st, prop, tier, seed, chk), time.time() - t0
    if kind == "valgrind":
        return _valgrind(st, prop, tier, seed, chk), time.time() - t0
    if kind == "fuzz":
        return _fuzz(st, prop, tier, seed, chk), time.time() - t0
    return None, 0.0


# --------------------------------------------------------------------------

def _tsan(st, prop, tier, seed, chk):
    binary, bdt, note = chk.build("tsan")
    if binary is None:
        chk.log("note: TSan build unavailable: %s" % note[-300:])
        return None
    logdir = os.path.join(chk.OUT, ".scratch", "tsan-%s-%d" % (prop, os.getpid()))
    shutil.rmtree(logdir, ignore_errors=True)
    os.makedirs(logdir)
    env = {"TSAN_OPTIONS": "halt_on_error=0 exitcode=0 report_signal_unsafe=0 log_path=%s/tsan" % logdir}
    # engine self-test: a deliberate unsynchronised counter must be reported
    e2 = dict(chk.ENV)
    e2["TSAN_OPTIONS"] = "halt_on_error=0 exitcode=0 log_path=%s/selftest" % logdir
    try:
        subprocess.run([binary, "selftest-race"], env=e2, capture_output=True, text=True, timeout=120)
    except Exception:
        pass
    fired = any("data race" in open(f, errors="replace").read() for f in glob.glob(os.path.join(logdir, "selftest*")))
    for f in glob.glob(os.path.join(logdir, "selftest*")):
        os.remove(f)
    if not fired:
        chk.log("note: TSan self-test did not fire; stage skipped")
        return {"rc": 0, "stderr": "", "stdout": "", "result": None, "wall_s": 0, "cmd": "", "engine_control": ("selftest-race", False)}
    r = chk.run_mon(binary, prop, tier, seed, st["name"], st.get("timeout", 3000), st.get("args", []), env)
    blocks = []
    for f in glob.glob(os.path.join(logdir, "tsan*")):
        txt = open(f, errors="replace").read()
        blocks += [b for b in txt.split("==================") if "WARNING: ThreadSanitizer" in b]
    viol = []
    seen = set()
    dep_only = 0
    for b in blocks:
        fr = _first_repo_frame(b)
        if fr is None:
            dep_only += 1
            continue
        kind = re.search(r"WARNING: ThreadSanitizer: ([^\n(]+)", b)
        sig = "tsan:%s:%s" % ((kind.group(1).strip() if kind else "report").replace(" ", "-"), fr)
        if sig in seen:
            continue
        seen.add(sig)
        viol.append({"sig": sig, "detail": "ThreadSanitizer report with a frame in the workspace crates (%s)" % fr,
                     "replay": {"report": b[:3000]}})
    r["extra_violations"] = viol
    r["engine_control"] = ("selftest-race", True)
    if r["result"] is not None:
        r["result"].setdefault("notes", {})["tsan_reports_total"] = len(blocks)
        r["result"]["notes"]["tsan_reports_dependencies_only"] = dep_only
        r["result"].setdefault("counters", {})["tsan_reports"] = len(blocks)
    shutil.rmtree(logdir, ignore_errors=True)
    return r


def _miri(st, prop, tier, seed, chk):
    tdir = os.path.join(chk.HARNESS, "target-miri")
    env = dict(chk.ENV)
    env["CARGO_TARGET_DIR"] = tdir
    env["MIRIFLAGS"] = st.get("miriflags", "-Zmiri-tree-borrows -Zmiri-disable-isolation")
    os.makedirs(os.path.join(chk.OUT, ".scratch"), exist_ok=True)
    shards = st.get("shards", [[]])
    procs = []
    t0 = time.time()
    # first invocation builds; run it alone up to the point where the binary exists
    b = chk.run_grp(["cargo", "+nightly", "miri", "run", "--bin", "mon", "--", "noop"], cwd=chk.HARNESS, env=env, timeout=3000)
    if "unknown property noop" not in (b.stderr + b.stdout):
        chk.log("note: Miri unavailable: %s" % (b.stderr or "")[-400:])
        return None
    st_ub = chk.run_grp(["cargo", "+nightly", "miri", "run", "--bin", "mon", "--", "selftest-heap"], cwd=chk.HARNESS, env=env, timeout=600)
    miri_fired = "Undefined Behavior" in (st_ub.stderr or "")
    if not miri_fired:
        chk.log("note: Miri self-test did not fire; stage skipped")
        return {"rc": 0, "stderr": "", "stdout": "", "result": None, "wall_s": 0, "cmd": "", "engine_control": ("selftest-heap", False)}
    outs = []
    for i, extra in enumerate(shards):
        out = os.path.join(chk.OUT, ".scratch", "%s-miri-%d-%d.json" % (prop, i, os.getpid()))
        if os.path.exists(out):
            os.remove(out)
        cmd = ["cargo", "+nightly", "miri", "run", "--bin", "mon", "--", prop, "--tier", tier, "--seed", str(seed),
               "--stage", st["name"], "--threads", "1", "--out", out] + st.get("args", []) + list(extra)
        procs.append((subprocess.Popen(cmd, cwd=chk.HARNESS, env=env, stdout=subprocess.PIPE, stderr=subprocess.PIPE, text=True, start_new_session=True), out, cmd))
        outs.append(out)
    merged = None
    viol = []
    errs = ""
    rc_all = 0
    for p, out, cmd in procs:
        try:
            so, se = p.communicate(timeout=st.get("timeout", 2400))
        except subprocess.TimeoutExpired:
            # the whole group: cargo -> cargo-miri -> miri keep the pipes open otherwise
            try:
                os.killpg(p.pid, 9)
            except (ProcessLookupError, PermissionError):
                pass
            try:
                so, se = p.communicate(timeout=30)
            except Exception:
                so, se = "", ""
            errs += "\nwatchdog: miri shard timed out: %s" % " ".join(cmd[-6:])
            continue
        rc_all = rc_all or p.returncode
        if "Undefined Behavior" in se or "error: unsupported operation" in se or "data race" in se.lower():
            blk = se[se.find("error:"):][:3000] if "error:" in se else se[-3000:]
            fr = _first_repo_frame(blk) or "dependency"
            kind = "data-race" if "data race" in blk.lower() else ("unsupported" if "unsupported operation" in blk else "undefined-behaviour")
            if kind == "unsupported":
                errs += "\nmiri unsupported operation: " + blk[:300]
            else:
                viol.append({"sig": "miri:%s:%s" % (kind, fr), "detail": "Miri reported %s (%s)" % (kind, fr), "replay": {"report": blk, "cmd": " ".join(cmd)}})
        if os.path.exists(out):
            try:
                res = json.load(open(out))
            except Exception:
                res = None
            os.remove(out)
            if res is not None:
                if merged is None:
                    merged = res
                else:
                    for k, v in res.get("counters", {}).items():
                        merged["counters"][k] = merged["counters"].get(k, 0) + v
                    merged["distinct"] += res.get("distinct", 0)
                    merged["evals"] += res.get("evals", 0)
                    merged["violations"] += res.get("violations", [])
                    merged["violation_count"] += res.get("violation_count", 0)
                    for k, v in res.get("violation_sigs", {}).items():
                        merged["violation_sigs"][k] = merged["violation_sigs"].get(k, 0) + v
        else:
            errs += "\nshard produced no result: " + se[-300:]
    return {"rc": rc_all, "stderr": errs[-3000:], "stdout": "", "result": merged, "wall_s": time.time() - t0,
            "cmd": "cargo +nightly miri run ... (%d shards)" % len(shards), "extra_violations": viol,
            "engine_control": ("selftest-heap", True)}


def _valgrind(st, prop, tier, seed, chk):
    if shutil.which("valgrind") is None:
        return None
    binary, bdt, note = chk.build("release")
    if binary is None:
        return None
    log = os.path.join(chk.OUT, ".scratch", "valgrind-%s-%d.log" % (prop, os.getpid()))
    wrapper = ["valgrind", "--quiet", "--error-exitcode=0", "--log-file=%s" % log, "--num-callers=30"]
    stl = log + ".selftest"
    try:
        subprocess.run(["valgrind", "--quiet", "--error-exitcode=0", "--log-file=%s" % stl, binary, "selftest-heap"], capture_output=True, timeout=300)
        vg_fired = os.path.exists(stl) and "Invalid read" in open(stl, errors="replace").read()
    except Exception:
        vg_fired = False
    if os.path.exists(stl):
        os.remove(stl)
    if not vg_fired:
        chk.log("note: valgrind self-test did not fire; stage skipped")
        return {"rc": 0, "stderr": "", "stdout": "", "result": None, "wall_s": 0, "cmd": "", "engine_control": ("selftest-heap", False)}
    r = chk.run_mon(binary, prop, tier, seed, st["name"], st.get("timeout", 3000), st.get("args", []), None, wrapper)
    viol = []
    n = 0
    if os.path.exists(log):
        txt = open(log, errors="replace").read()
        blocks = [b for b in re.split(r"\n==\d+== \n", txt) if re.search(r"Invalid (read|write)|uninitialised|Invalid free|Mismatched free|definitely lost", b)]
        n = len(blocks)
        seen = set()
        for b in blocks:
            fr = _first_repo_frame(b)
            kind = re.search(r"(Invalid read|Invalid write|uninitialised|Invalid free|Mismatched free|definitely lost)", b).group(1)
            if kind == "definitely lost":
                continue
            sig = "valgrind:%s:%s" % (kind.replace(" ", "-"), fr or "dependency")
            if sig not in seen:
                seen.add(sig)
                viol.append({"sig": sig, "detail": "valgrind memcheck: %s (%s)" % (kind, fr or "in a dependency, reached from the hostile corpus"), "replay": {"report": b[:3000]}})
        os.remove(log)
    r["extra_violations"] = viol
    r["engine_control"] = ("selftest-heap", True)
    if r["result"] is not None:
        r["result"].setdefault("counters", {})["valgrind_error_blocks"] = n
    return r


def _fuzz(st, prop, tier, seed, chk):
    target = st["target"]
    fdir = os.path.join(chk.HARNESS, "fuzz")
    env = dict(chk.ENV)
    t0 = time.time()
    if not os.path.exists(os.path.join(fdir, "Cargo.lock")):
        shutil.copy(os.path.join(chk.HARNESS, "Cargo.lock"), os.path.join(fdir, "Cargo.lock"))
    b = chk.run_grp(["cargo", "+nightly", "fuzz", "build", target], cwd=chk.HARNESS, env=env, timeout=3000)
    if b.returncode != 0:
        chk.log("note: cargo fuzz build unavailable: %s" % (b.stderr or "")[-400:])
        return None
    corpus = os.path.join(fdir, "corpus", target)
    art = os.path.join(fdir, "artifacts", target)
    shutil.rmtree(art, ignore_errors=True)
    os.makedirs(corpus, exist_ok=True)
    # seed the corpus from the hostile generator (same seed as the run)
    binary, _, _ = chk.build("release")
    if binary:
        subprocess.run([binary, "dump-corpus", "--seed", str(seed), "--set", "dir=%s" % corpus], cwd=chk.HERE, env=env, capture_output=True)
    secs = st.get("seconds", 60)
    cmd = ["cargo", "+nightly", "fuzz", "run", target, "--", "-timeout=10", "-max_total_time=%d" % secs, "-fork=%d" % st.get("fork", 16),
           "-max_len=4096", "-len_control=0", "-ignore_crashes=0", "-seed=%d" % (int(seed) % (2 ** 31))]
    try:
        r = chk.run_grp(cmd, cwd=chk.HARNESS, env=env, timeout=secs + 600)
        se = r.stderr or ""
        rc = r.returncode
    except subprocess.TimeoutExpired:
        se, rc = "watchdog", -999
    execs = 0
    cov = 0
    for m in re.finditer(r"#(\d+): cov: (\d+)", se):
        execs = max(execs, int(m.group(1)))
        cov = max(cov, int(m.group(2)))
    viol = []
    crashes = sorted(glob.glob(os.path.join(art, "crash-*")) + glob.glob(os.path.join(art, "oom-*")) + glob.glob(os.path.join(art, "timeout-*")))
    os.makedirs(chk.REPLAYS, exist_ok=True)
    for c in crashes[:5]:
        data = open(c, "rb").read()
        kept = os.path.join(chk.REPLAYS, "%s-fuzz-%s" % (prop, os.path.basename(c)))
        shutil.copy(c, kept)
        why = re.findall(r"(C08-DISAGREEMENT [^\n]+|panicked at [^\n]+|ERROR: AddressSanitizer[^\n]+|ERROR: libFuzzer[^\n]+)", se)
        kind = os.path.basename(c).split("-")[0]
        first = why[0] if why else kind
        sig = "fuzz:%s:%s" % (target, re.sub(r"[^A-Za-z0-9_:.\-/ ]", "", first)[:80].replace(" ", "_"))
        viol.append({"sig": sig, "detail": "libFuzzer %s on target %s: %s" % (kind, target, "; ".join(why[:3])),
                     "replay": {"artifact": kept, "input_hex": data[:2048].hex(), "selector_byte": data[0] if data else None}})
    res = {"counters": {"fuzz_execs:%s" % target: execs, "fuzz_coverage_edges:%s" % target: cov, "fuzz_crash_artifacts": len(crashes)},
           "distinct": 0, "states": 0, "transitions": 0, "evals": execs, "samples": [], "controls": {}, "notes": {}, "violations": [],
           "violation_count": 0, "violation_sigs": {}, "exhaustive": False, "panics_caught_total": 0}
    if execs == 0 and not crashes:
        return {"rc": rc, "stderr": se[-2000:], "stdout": "", "result": None, "wall_s": time.time() - t0, "cmd": " ".join(cmd), "extra_violations": []}
    return {"rc": rc, "stderr": se[-1500:], "stdout": "", "result": res, "wall_s": time.time() - t0, "cmd": " ".join(cmd), "extra_violations": viol}
