#!/bin/sh
# Runs every check of one tier at the given VERIF_SEED values against /repo and prints one line per
# (check, seed): verdict, exit code, wall time. Evidence and replays go to a scratch directory unless
# KEEP_EVIDENCE=1 (then /verif/evidence is rewritten by the last seed).
# Usage: sh sweep.sh quick|thorough seed [seed ...]
TIER=$1; shift
cd /verif
for s in "$@"; do
  for c in C01 C02 C03 C04 C05 C06 C07 C08 C09 C10 C11 C12 C13 C14 C15 C16 C17 C18; do
    t0=$(date +%s)
    if [ "$KEEP_EVIDENCE" = "1" ]; then
      VERIF_SEED=$s python3 check.py $c $TIER > /tmp/sweep-$c-$TIER-$s.log 2>&1
    else
      VERIF_OUT=/tmp/sweep-out VERIF_SEED=$s python3 check.py $c $TIER > /tmp/sweep-$c-$TIER-$s.log 2>&1
    fi
    rc=$?
    t1=$(date +%s)
    echo "$c seed=$s tier=$TIER rc=$rc $((t1-t0))s $(grep -E '^(HELD|VIOLATION|INCONCLUSIVE|KNOWN-FINDING)' /tmp/sweep-$c-$TIER-$s.log | head -3 | cut -c1-160 | tr '\n' '|')"
  done
done
