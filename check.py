#!/usr/bin/env python3
"""Orchestrator of the runtime monitors for brave/sta-rs.

  python3 check.py --setup                 build the harness (release + dev), offline
  python3 check.py <ID> quick|thorough     run the check of one property
  python3 check.py --replay <path>         re-run the case recorded in a replay file
  python3 check.py --all quick|thorough    every claimed property (development aid)

Exit codes: 0 held on everything observed, 1 violation (prints
`VIOLATION property=<id> replay=<path>`), 2 inconclusive (watchdog, build
failure, starved monitor, failed positive control) — never folded into 0 or 1.

Every run rebuilds the harness from /repo's working tree (path dependencies +
content-hash stale-build guard), runs the monitor stages of the property,
matches violations against known_findings.json and rewrites
evidence/<id>.json.
"""
import hashlib
import json
import os
import re
import shutil
import subprocess
import sys
import time

HERE = os.path.dirname(os.path.abspath(__file__))
# VERIF_REPO / VERIF_HARNESS / VERIF_OUT redirect a run to a scratch copy (used
# only by mutate.py, which tests the monitors against seeded changes without
# touching /repo or the committed evidence); the registered commands never set them.
HARNESS = os.environ.get("VERIF_HARNESS") or os.path.join(HERE, "harness")
REPO = os.environ.get("VERIF_REPO") or "/repo"
OUT = os.environ.get("VERIF_OUT") or HERE
EVID = os.path.join(OUT, "evidence")
REPLAYS = os.path.join(OUT, "replays")
WORKSPACE_CRATES = ["star-sharks", "adss", "sta-rs", "ppoprf", "star-wasm", "star-test-utils", "mon"]

sys.path.insert(0, HERE)
import props  # noqa: E402
from props import PROPS  # noqa: E402  (per-property tables: level, rule, minimums, stages)

ENV = dict(os.environ)


def run_grp(cmd, timeout=None, **kw):
    """subprocess.run(capture_output=True, text=True) in its OWN process group: on a timeout the whole
    group is killed (cargo -> miri / fuzz target / forked monitor children keep the pipes open otherwise
    and the watchdog itself would hang)."""
    import signal
    kw.pop("capture_output", None)
    kw.setdefault("text", True)
    p = subprocess.Popen(cmd, stdout=subprocess.PIPE, stderr=subprocess.PIPE, start_new_session=True, **kw)
    try:
        so, se = p.communicate(timeout=timeout)
    except subprocess.TimeoutExpired:
        try:
            os.killpg(p.pid, signal.SIGKILL)
        except (ProcessLookupError, PermissionError):
            pass
        try:
            so, se = p.communicate(timeout=30)
        except Exception:
            so, se = "", ""
        raise subprocess.TimeoutExpired(cmd, timeout, output=so, stderr=se)
    return subprocess.CompletedProcess(cmd, p.returncode, so, se)
ENV["CARGO_NET_OFFLINE"] = "true"
ENV.setdefault("CARGO_TERM_COLOR", "never")


def log(*a):
    print(*a, flush=True)


# --------------------------------------------------------------------------
# tree hash + stale build guard

def tree_hash():
    try:
        out = subprocess.run(
            ["git", "-C", REPO, "ls-files", "-z", "--cached", "--others", "--exclude-standard"],
            capture_output=True, check=True).stdout
        files = [f for f in out.decode().split("\0") if f]
    except Exception:
        files = []
        for d, _, fs in os.walk(REPO):
            if "/target" in d or "/.git" in d:
                continue
            for f in fs:
                files.append(os.path.relpath(os.path.join(d, f), REPO))
    h = hashlib.sha256()
    for f in sorted(files):
        if not (f.endswith(".rs") or f.endswith(".toml") or f.endswith(".lock")):
            continue
        p = os.path.join(REPO, f)
        try:
            with open(p, "rb") as fh:
                data = fh.read()
        except OSError:
            continue
        h.update(f.encode() + b"\0" + hashlib.sha256(data).digest())
    # the harness's own sources are part of what gets built
    for d, _, fs in os.walk(os.path.join(HARNESS, "src")):
        for f in sorted(fs):
            with open(os.path.join(d, f), "rb") as fh:
                h.update(f.encode() + b"\0" + hashlib.sha256(fh.read()).digest())
    return h.hexdigest()[:24]


PROFILES = {
    # name: (target dir, cargo args, extra env, binary relative path)
    "release": ("target", ["build", "--release"], {}, "release/mon"),
    "dev": ("target", ["build"], {}, "debug/mon"),
    "asan": ("target-asan", ["+nightly", "build", "--release", "--target", "x86_64-unknown-linux-gnu"],
             {"RUSTFLAGS": "-Zsanitizer=address -Cforce-frame-pointers=yes"},
             "x86_64-unknown-linux-gnu/release/mon"),
    "tsan": ("target-tsan", ["+nightly", "build", "--release", "-Zbuild-std", "--target", "x86_64-unknown-linux-gnu"],
             {"RUSTFLAGS": "-Zsanitizer=thread -Cforce-frame-pointers=yes"},
             "x86_64-unknown-linux-gnu/release/mon"),
}


def build(profile):
    """Build one profile from /repo's current tree. Returns (binary path | None, seconds, note)."""
    tdir, args, extra, rel = PROFILES[profile]
    tpath = os.path.join(HARNESS, tdir)
    os.makedirs(tpath, exist_ok=True)
    th = tree_hash()
    stamp = os.path.join(tpath, ".verif-tree-%s" % profile)
    old = open(stamp).read().strip() if os.path.exists(stamp) else ""
    env = dict(ENV)
    env.update(extra)
    env["CARGO_TARGET_DIR"] = tpath
    t0 = time.time()
    if not os.path.exists(os.path.join(HARNESS, "Cargo.lock")) and os.path.exists(os.path.join(REPO, "Cargo.lock")):
        shutil.copy(os.path.join(REPO, "Cargo.lock"), os.path.join(HARNESS, "Cargo.lock"))
    if old != th:
        # cargo trusts mtimes; a file restored with its old mtime would not be
        # rebuilt. Force the workspace crates (not the dependencies) to rebuild.
        clean = [a for a in args if a.startswith("+")] + ["clean"]
        if "--release" in args:
            clean.append("--release")
        if "--target" in args:
            clean += ["--target", args[args.index("--target") + 1]]
        for c in WORKSPACE_CRATES:
            clean += ["-p", c]
        subprocess.run(["cargo"] + clean, cwd=HARNESS, env=env, capture_output=True)
    r = subprocess.run(["cargo"] + args, cwd=HARNESS, env=env, capture_output=True, text=True)
    dt = time.time() - t0
    if r.returncode != 0:
        tail = "\n".join((r.stderr or "").splitlines()[-40:])
        return None, dt, "build failed:\n" + tail
    with open(stamp, "w") as fh:
        fh.write(th)
    return os.path.join(tpath, rel), dt, th


# --------------------------------------------------------------------------

def load_known():
    p = os.path.join(HERE, "known_findings.json")
    if not os.path.exists(p):
        return []
    with open(p) as fh:
        return json.load(fh).get("findings", [])


def run_mon(binary, prop, tier, seed, stage, timeout, extra_args=(), env_extra=None, wrapper=()):
    os.makedirs(os.path.join(OUT, ".scratch"), exist_ok=True)
    out = os.path.join(OUT, ".scratch", "%s-%s-%s-%d.json" % (prop, tier, stage, os.getpid()))
    if os.path.exists(out):
        os.remove(out)
    cmd = list(wrapper) + [binary, prop, "--tier", tier, "--seed", str(seed), "--stage", stage, "--out", out] + list(extra_args)
    env = dict(ENV)
    if env_extra:
        env.update(env_extra)
    t0 = time.time()
    try:
        r = run_grp(cmd, cwd=HERE, env=env, timeout=timeout)
        rc, err, so = r.returncode, r.stderr, r.stdout
    except subprocess.TimeoutExpired as e:
        rc, err, so = -999, "watchdog: timeout after %ss" % timeout, ""
        _ = e
    dt = time.time() - t0
    res = None
    if os.path.exists(out):
        try:
            with open(out) as fh:
                res = json.load(fh)
        except Exception as e:  # truncated file
            err = (err or "") + "\nresult unreadable: %s" % e
        os.remove(out)
    return {"rc": rc, "stderr": (err or "")[-4000:], "stdout": (so or "")[-4000:], "result": res, "wall_s": dt, "cmd": " ".join(cmd)}


def merge_results(acc, res):
    for k, v in res.get("counters", {}).items():
        acc["counters"][k] = acc["counters"].get(k, 0) + v
    acc["distinct"] += res.get("distinct", 0)
    acc["states"] += res.get("states", 0)
    acc["transitions"] += res.get("transitions", 0)
    acc["evals"] += res.get("evals", 0)
    for s in res.get("samples", []):
        if len(acc["samples"]) < 10:
            acc["samples"].append(s)
    for k, v in res.get("controls", {}).items():
        c = acc["controls"].setdefault(k, {"ok": 0, "failed": 0})
        c["ok"] += v["ok"]
        c["failed"] += v["failed"]
    for k, v in res.get("notes", {}).items():
        acc["notes"].setdefault(k, v)
    acc["exhaustive"] = acc["exhaustive"] or res.get("exhaustive", False)


def check(prop, tier, seed):
    spec = PROPS[prop]
    t_start = time.time()
    os.makedirs(EVID, exist_ok=True)
    os.makedirs(REPLAYS, exist_ok=True)
    known = [k for k in load_known() if k["property"] == prop]
    acc = {"counters": {}, "distinct": 0, "states": 0, "transitions": 0, "evals": 0, "samples": [],
           "controls": {}, "notes": {}, "exhaustive": False}
    stages_ev = []
    violations = []   # (sig, detail, replay, stage)
    inconclusive = []
    th = None

    stages = [s for s in spec["stages"] if tier in s.get("tiers", ("quick", "thorough"))]
    for st in stages:
        name = st["name"]
        primary = st.get("primary", False)
        kind = st.get("kind", "mon")
        if kind == "mon":
            binary, bdt, note = build(st.get("profile", "release"))
            if binary is None:
                msg = "stage %s: %s" % (name, note)
                stages_ev.append({"stage": name, "status": "build-failed", "build_s": round(bdt, 1)})
                (inconclusive if primary else []).append(msg)
                log(msg)
                continue
            th = note
            engine_control = None
            if st.get("selftest"):
                # positive control of the engine: deliberately broken code must be reported
                sub, pattern = st["selftest"]
                e2 = dict(ENV)
                e2.update(st.get("env") or {})
                try:
                    sr = subprocess.run([binary, sub], env=e2, capture_output=True, text=True, timeout=120)
                    engine_control = (sub, pattern in (sr.stderr + sr.stdout))
                except Exception:
                    engine_control = (sub, False)
                if not engine_control[1]:
                    stages_ev.append({"stage": name, "status": "unavailable (engine self-test %s did not fire)" % sub})
                    log("note: stage %s skipped: engine self-test did not fire" % name)
                    continue
            r = run_mon(binary, prop, tier, seed, name, st.get("timeout", 1500),
                        st.get("args", []), st.get("env"), st.get("wrapper", ()))
            if engine_control:
                r["engine_control"] = engine_control
        else:
            from stages import run_special  # sanitizer / miri / fuzz stages
            r, bdt = run_special(kind, st, prop, tier, seed, sys.modules[__name__])
            if r is None or (r.get("engine_control") and not r["engine_control"][1]):
                stages_ev.append({"stage": name, "status": "unavailable" if r is None else "unavailable (engine self-test did not fire)"})
                if primary:
                    inconclusive.append("stage %s unavailable" % name)
                continue
        res = r["result"]
        sev = {"stage": name, "build_s": round(bdt, 1), "wall_s": round(r["wall_s"], 1), "rc": r["rc"]}
        if r.get("engine_control"):
            sev["engine_self_test"] = {"name": r["engine_control"][0], "fired": r["engine_control"][1]}
        if res is None:
            sev["status"] = "no-result"
            sev["stderr_tail"] = r["stderr"][-600:]
            stages_ev.append(sev)
            msg = "stage %s produced no result (rc=%s): %s" % (name, r["rc"], r["stderr"][-300:])
            # an auxiliary engine that cannot run is reported, never a violation
            if primary:
                inconclusive.append(msg)
            log("note: " + msg)
            for v in r.get("extra_violations", []):
                violations.append((v["sig"], v["detail"], v.get("replay", {}), name))
            continue
        sev["status"] = "ran"
        sev["events"] = sum(res.get("counters", {}).values())
        sev["violations"] = res.get("violation_count", 0)
        sev["panics_caught"] = res.get("panics_caught_total", 0)
        stages_ev.append(sev)
        merge_results(acc, res)
        for v in res.get("violations", []):
            violations.append((v["sig"], v["detail"], v.get("replay", {}), name))
        for v in r.get("extra_violations", []):
            violations.append((v["sig"], v["detail"], v.get("replay", {}), name))
        # signatures that were counted but whose witnesses were dropped by the cap
        kept = set(v["sig"] for v in res.get("violations", []))
        for sig, cnt in res.get("violation_sigs", {}).items():
            if sig not in kept:
                violations.append((sig, "(witness dropped by cap; %d occurrences)" % cnt, {}, name))
        if primary:
            waived = set()
            for wc, keys in getattr(props, "WAIVERS", {}).get(prop, {}).items():
                if res.get("counters", {}).get(wc, 0) > 0:
                    waived.update(keys)
            if waived:
                acc.setdefault("notes", {})["waived_minimums"] = sorted(waived)
            for k, mn in spec.get("min_events", {}).items():
                if k in waived:
                    continue
                if res.get("counters", {}).get(k, 0) < mn * (st.get("min_scale", 1.0)):
                    inconclusive.append("stage %s starved: %s=%d < %d" % (name, k, res.get("counters", {}).get(k, 0), mn))

    for k, c in acc["controls"].items():
        if c["failed"] > 0 or c["ok"] == 0:
            inconclusive.append("positive control %s: ok=%d failed=%d" % (k, c["ok"], c["failed"]))
    for k in spec.get("controls", []):
        if k not in acc["controls"]:
            inconclusive.append("positive control %s never exercised" % k)

    # ---- verdict
    new_viol = []
    known_hits = {}
    for sig, detail, replay, stage in violations:
        hit = None
        for k in known:
            if k.get("status", "known") != "known":
                continue
            if re.fullmatch(k["sig"], sig):
                # a known finding may carry bounds that the witness must satisfy
                hit = k
                break
        if hit:
            known_hits.setdefault(hit["sig"], (hit, 0))
            known_hits[hit["sig"]] = (hit, known_hits[hit["sig"]][1] + 1)
        else:
            new_viol.append((sig, detail, replay, stage))
    for sig, (k, n) in known_hits.items():
        log("KNOWN-FINDING: property=%s %s (signature %s, observed %d time(s) in this run)" % (prop, k["what"], sig, n))

    replay_paths = []
    seen_sigs = set()
    for sig, detail, replay, stage in new_viol:
        if sig in seen_sigs and len(replay_paths) >= 5:
            continue
        seen_sigs.add(sig)
        rp = os.path.join(REPLAYS, "%s-%s-%d-%d.json" % (prop, tier, seed, len(replay_paths)))
        with open(rp, "w") as fh:
            json.dump({"property": prop, "tier": tier, "seed": seed, "stage": stage, "sig": sig,
                       "detail": detail, "witness": replay, "tree": th}, fh, indent=1)
        replay_paths.append(rp)
        log("VIOLATION property=%s replay=%s" % (prop, rp))
        log("  signature: %s [stage %s]" % (sig, stage))
        log("  %s" % detail[:600])

    evaluations = acc["evals"] or sum(acc["counters"].values())
    cov = {
        "evaluations": int(evaluations),
        "distinct_nontrivial": int(acc["distinct"]),
        "rule": spec["rule"],
        "samples": acc["samples"] or [{"note": "no sample recorded"}],
        "events_by_kind": acc["counters"],
        "positive_controls": acc["controls"],
        "stages": stages_ev,
        "notes": acc["notes"],
        "tree_hash": th,
        "known_findings_observed": sorted(known_hits.keys()),
        "inconclusive_reasons": inconclusive,
    }
    if acc["states"]:
        cov["states"] = int(acc["states"])
    if acc["transitions"]:
        cov["transitions"] = int(acc["transitions"])
    if acc["exhaustive"]:
        cov["exhaustive_subspaces"] = True
    ev = {
        "property_id": prop, "tier": tier, "seed": int(seed), "level": spec["level"],
        "coverage": cov, "assumptions": spec["assumptions"],
        "wall_s": round(time.time() - t_start, 2), "violations": len(new_viol),
    }
    with open(os.path.join(EVID, "%s.json" % prop), "w") as fh:
        json.dump(ev, fh, indent=1, sort_keys=True)

    if new_viol:
        return 1
    if inconclusive or evaluations == 0 or acc["distinct"] < 2:
        for m in inconclusive:
            log("INCONCLUSIVE property=%s %s" % (prop, m))
        if evaluations == 0 or acc["distinct"] < 2:
            log("INCONCLUSIVE property=%s monitor observed nothing" % prop)
        return 2
    log("HELD property=%s tier=%s seed=%s evaluations=%d distinct=%d wall=%.1fs" %
        (prop, tier, seed, evaluations, acc["distinct"], time.time() - t_start))
    return 0


def main():
    a = sys.argv[1:]
    if not a:
        print(__doc__)
        return 64
    seed = int(os.environ.get("VERIF_SEED", "1") or 1)
    if a[0] == "--setup":
        rc = 0
        for prof in ("release", "dev"):
            b, dt, note = build(prof)
            log("setup: %s build %s in %.1fs" % (prof, "ok" if b else "FAILED", dt))
            if b is None:
                log(note)
                rc = 1
        return rc
    if a[0] == "--replay":
        with open(a[1]) as fh:
            rp = json.load(fh)
        log("replaying %s: property=%s tier=%s seed=%s signature=%s" % (a[1], rp["property"], rp["tier"], rp["seed"], rp["sig"]))
        log("recorded witness: %s" % json.dumps(rp["witness"])[:2000])
        # 1. re-execute the real code on the recorded artefacts, where the witness carries them
        binary, _, note = build("release")
        if binary:
            r = subprocess.run([binary, "replay", "--set", "file=%s" % os.path.abspath(a[1])], capture_output=True, text=True, env=ENV)
            out = r.stdout
            for l in out.splitlines():
                if l.startswith("REPLAY"):
                    log(l)
            if "REPLAY reproduced=true" in out:
                log("VIOLATION property=%s replay=%s" % (rp["property"], a[1]))
                return 1
            if "REPLAY reproduced=false" in out:
                log("the recorded artefacts no longer violate the property on the current tree")
                return 0
        # 2. otherwise regenerate the case: same seed and tier
        rc = check(rp["property"], rp["tier"], rp["seed"])
        return rc
    if a[0] == "--all":
        tier = a[1] if len(a) > 1 else "quick"
        worst = 0
        for p in sorted(PROPS):
            rc = check(p, tier, seed)
            worst = max(worst, rc)
        return worst
    prop = a[0]
    tier = a[1] if len(a) > 1 else os.environ.get("VERIF_TIER", "quick")
    if "--seed" in a:
        seed = int(a[a.index("--seed") + 1])
    if prop not in PROPS:
        log("unknown property %s" % prop)
        return 64
    return check(prop, tier, seed)


if __name__ == "__main__":
    sys.exit(main())
