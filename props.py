"""Per-property tables used by check.py and mkmanifest.py: claimed level, how
cases are generated and counted (rule), what the check trusts (assumptions),
minimum event counts below which a run is inconclusive (starved monitor),
positive controls that must fire, and the stages to run per tier."""

REL = {"name": "release", "profile": "release", "primary": True}
# the dev build keeps overflow checks and debug assertions on: it flips the
# failure mode of the u32 length arithmetic in the decoders
DEV = {"name": "dev", "profile": "dev", "primary": False, "args": ["--scale", "0.25"], "min_scale": 0.0}
DEV_T = dict(DEV, tiers=("thorough",))

THO = ("thorough",)
ASAN_ENV = {"ASAN_OPTIONS": "detect_leaks=0:halt_on_error=1:abort_on_error=1:allocator_may_return_null=1:max_allocation_size_mb=4096"}
ASAN_C09 = {"name": "asan", "profile": "asan", "primary": False, "tiers": THO, "args": ["--set", "noaslimit=1", "--scale", "0.2"],
            "env": ASAN_ENV, "timeout": 3000, "min_scale": 0.0, "selftest": ("selftest-heap", "AddressSanitizer")}
MIRI_C09 = {"name": "miri", "kind": "miri", "primary": False, "tiers": THO, "args": ["--set", "inproc=1", "--set", "groups=8"],
            "miriflags": "-Zmiri-tree-borrows -Zmiri-disable-isolation -Zmiri-ignore-leaks", "timeout": 2400,
            "shards": [["--set", "gmod=0", "--set", "stride=12"], ["--set", "gmod=1", "--set", "stride=12"],
                       ["--set", "gmod=2", "--set", "stride=12"], ["--set", "gmod=3", "--set", "stride=12"],
                       ["--set", "gmod=4", "--set", "stride=6"], ["--set", "gmod=5", "--set", "stride=60"],
                       ["--set", "gmod=6", "--set", "stride=150"], ["--set", "gmod=7", "--set", "stride=60"]]}
VALGRIND_C09 = {"name": "valgrind", "kind": "valgrind", "primary": False, "tiers": THO, "timeout": 3000,
                "args": ["--set", "inproc=1", "--set", "groups=24", "--set", "stride=6", "--threads", "1"]}
FUZZ_C09 = {"name": "libfuzzer+asan:c09_crash", "kind": "fuzz", "target": "c09_crash", "seconds": 90, "primary": False, "tiers": THO}
FUZZ_C08 = {"name": "libfuzzer:c08_diff", "kind": "fuzz", "target": "c08_diff", "seconds": 60, "primary": False, "tiers": THO}
MIRI_TINY = {"name": "miri", "kind": "miri", "primary": False, "tiers": THO, "args": ["--set", "tiny=1", "--set", "smallpools=1"],
             "miriflags": "-Zmiri-tree-borrows -Zmiri-disable-isolation -Zmiri-ignore-leaks", "timeout": 2400}
TSAN_C14 = {"name": "tsan", "kind": "tsan", "primary": False, "tiers": THO, "args": ["--set", "only=concurrent", "--scale", "0.2"], "timeout": 3000}
TSAN_C18 = {"name": "tsan", "kind": "tsan", "primary": False, "tiers": THO, "args": ["--scale", "0.2"], "timeout": 3000}
REL_LONG = dict(REL, timeout=7200)

PROPS = {}
MANIFEST_TEXT = {}
NOT_APPLICABLE = {}


def P(pid, level, rule, assumptions, min_events, stages, technique, level_text, level_note, controls=()):
    PROPS[pid] = {"level": level, "rule": rule, "assumptions": assumptions, "min_events": min_events,
                  "stages": stages, "controls": list(controls)}
    MANIFEST_TEXT[pid] = {"technique": technique, "level_text": level_text, "level_note": level_note}


P("C01", "exploration",
  "seeded scenarios (measurement length/content classes incl. the Strobe rate boundary, epoch, threshold, n=t..2t, per-client aux "
  "classes, randomness source local / live PPOPRF round / arbitrary / all-00 / all-FF); every report crosses to_bytes/from_bytes; "
  "selections: generation order, reversed, permuted, exactly t, duplicates anywhere, duplicate run in front, surplus, and for n<=5 "
  "(thorough 6) every subset of size >= t in every order; after each recovery every report is decrypted with the key from public API "
  "and parsed by an independent framing parser. distinct = (t, surplus class, pattern, length class, aux class, source) tuples + "
  "exhaustive (t, n) configurations. Plus: thresholds 127,128,129,256,257 in every run, occasional surplus of 100+ reports, and a "
  "length sweep (every measurement length and every aux length 0..420, thorough 0..1200).",
  ["share points come from the OS RNG and are not controlled: each run samples them afresh",
   "success is only demanded when the monitor itself counts >= t distinct x in the selection (documented share layout)"],
  {"recover": 5000, "decrypt": 5000, "exhaustive_selections": 1000, "encode_decode": 2000},
  [REL_LONG, DEV_T],
  "runtime send/reveal ledger monitor over seeded scenarios and exhaustive small-n selections",
  "Held-on-observed: every generated scenario recovered from every selection with >= t distinct shares and every report revealed "
  "exactly its client's (measurement, aux). Exhaustive only over subsets/permutations for n <= 5/6; sampled otherwise.",
  "independent payload parser and share-layout parser are trusted; OS randomness uncontrolled")

P("C02", "exploration",
  "M1: per target sharing (t=2..64, thorough 128) attack collections on share_recover: k<t distinct shares padded with repeats, "
  "foreign shares of other measurement / epoch / threshold (below and above their own threshold; target first, foreign first, "
  "interleaved), threshold field rewritten at byte level in the first / all shares to 0..k, t-1, t+1, 2^31, 2^32-1; every "
  "sub-threshold subset for t<=5; explicit attacker Lagrange interpolation on sub-threshold subsets. M2: 8..32-byte secrets "
  "(measurement, aux, client randomness, r0, r1, K, K as element, encryption key, 16-byte prefixes) scanned at every offset of every "
  "encoded report, and M/R/K in adss shares. M3: Newton interpolation of t of t+2 shares: exact degree, non-zero pairwise distinct "
  "coefficients, global coefficient set across neighbour sharings (keyed on the actual triple). Large-threshold stream: t in {256,257,300,513} "
  "(thorough to 1025): t-1, 255, 256, t/2 honest distinct shares must neither recover nor interpolate to the key. distinct = (collection "
  "kind, t, size) / (scan shape) / (t, neighbour kind).",
  ["secrecy is decided only in the observable formulations of the statement (never returned, not at any offset, attacker "
   "interpolation fails, coefficients not shared) - not indistinguishability",
   "coins needle r1 is used only when the public derivation reproduces r0"],
  {"attack_collection": 10000, "attacker_interpolation": 1000, "needle_scans": 10000, "polynomial_interpolated": 500,
   "coefficient_checked": 2000},
  [REL, DEV_T],
  "runtime attack-collection monitor + clear-text scanner + BigUint polynomial-shape monitor",
  "Held-on-observed over ~1e5 hostile collections, ~1e5 needle scans and ~2e3 interpolated sharings per quick run.",
  "BigUint interpolation trusted; needles >= 8 uniform bytes so chance hits are negligible",
  controls=["t_honest_shares_recover", "scanner_finds_public_tag"])

P("C03", "exploration",
  "pairs and sequences (2..6) of reports of one (measurement, epoch, t) with different associated data (1..600 bytes, thorough 2 KiB, "
  "common prefixes, single-byte differences): longest run from the first differing payload byte on which c1^c2 == p1^p2 (run >= 8 is a "
  "witness; > 200 bytes = unbounded reuse); every 16-byte window of every encoded report tried as key and every 32-byte window as key "
  "seed, and (calibrated against the true interpolated key) as the SHARING key that opens the share's encrypted key seed; thresholds "
  "2..5 and 127..200; epochs of 0..64 bytes; every 8-byte window of uniform aux scanned in the clear. distinct = report pairs and window cases.",
  ["XOR-relation witnesses need a run of >= 8 bytes", "payloads rebuilt with the harness' own framing"],
  {"pair_examined": 3000, "pairs_with_long_tail": 300, "window_as_key": 20000, "window_as_seed": 20000, "aux_scan": 100},
  [REL],
  "runtime XOR-relation monitor over report pairs + window-as-key attacker + clear-text scanner",
  "Held-on-observed for clear-text and report-carried-key formulations; the XOR relation is a KNOWN FINDING (bounded keystream reuse) "
  "on the unchanged tree and stays armed for the unbounded variant.",
  "the known finding is keyed on signature keystream-reuse:bounded only",
  controls=["true_key_decrypts"])

P("C04", "exploration",
  "enumerated neighbour families of (measurement, epoch, threshold): every split of a concatenation m||e (|m||e|<=12), prefix pairs, "
  "swaps, empty components, threshold vs threshold^2^b for all 32 b and +-1, bytes moved between threshold / epoch / measurement, plus "
  "digits of the epoch moved into a decimal / hex TEXT rendering of the threshold, long measurements differing in one byte at each "
  "position class (0,31,32,63,64,65,99,127,128,165,166,199,last), unrelated triples; 2..9 independent clients per triple (also on fresh threads; a run-global set of share points) through Message::generate (different aux) and share_with_local_randomness; "
  "global injectivity maps for randomness / tag / key. distinct = triples.",
  ["thresholds above 1024 observe sample_local_randomness only (dealing is O(t))", ">= 128-bit values: chance collisions ignored"],
  {"sample_local_randomness": 20000, "combine": 3000, "injectivity_insert": 10000, "share_points_checked": 3000},
  [REL_LONG],
  "runtime determinism/injectivity monitor over enumerated neighbour triples",
  "Held-on-observed over ~3e4 triples per quick run incl. all boundary-shift families.",
  "value maps are exact (hash map on full values)")

P("C05", "fault_enumeration",
  "for sharings with t=2..6: every field of the encoded share (threshold, S length, x, y, C length, C, D length, D, J) x every byte "
  "position x faults {flip bit0, flip bit7, +1, :=00, :=FF} (thorough: all 8 bit flips) x position of the faulted share "
  "(first / inside the first t / beyond), at adss::recover and sta_rs::share_recover; mixtures of up to 3 sharings in random orders "
  "with repeats; cross-grafting C/D/J/threshold of another sharing into the first share; value-level faults of the four u32 fields "
  "(:= 0,1,2,3,v-1,v+1,v+2,24,48,255,256,65536+v,2^31,2^32-1); honest threshold-1 sharings. distinct = (field, position class, fault, "
  "byte offset / value, t) and mixture shapes.",
  ["field offsets come from the independent layout parser", "an alteration counts as such when the layout-level value of the share changed",
   "'must be rejected' is asserted only with >= 16 authenticated bytes (|M|+|R|) and not for x-faults at threshold 1 (still a valid share)"],
  {"recover_faulted": 50000, "outcome_err": 10000, "outcome_ok_right_message": 5000},
  [REL, DEV_T],
  "runtime fault enumeration against ground-truth messages",
  "Every single-field single-byte fault of the enumerated set at every offset and share position class was executed; outcome must be "
  "error or the first share's message, and error when the ciphertext-supplying share changed.",
  "single-byte faults only (plus whole-field grafts); multi-fault combinations sampled through mixtures",
  controls=["unfaulted_collection_recovers"])

P("C06", "exploration",
  "dealings with t in 1..600 (mostly 1..24; 40/64/100 and 255/500/600 periodically), secrets of 0..16 elements from "
  "{0,1,2^64-1,2^64,2^128-1,2^128,p-1,uniform} plus ignored partial tails, dealer driven by a recording ChaCha20 stream with "
  "adversarial zero / all-ones word splices; expected coefficients from replaying the recorded stream through Fp::random; shares "
  "from the iterator and from Evaluator::gen (second recorded stream, incl. an all-zero point draw); BigUint Horner on every share; "
  "recovery over the C01 selection patterns, exhaustive for n<=5; sub-threshold, mixed and unequal-length collections; out-of-range "
  "secrets. distinct = (t, k, adversarial, tail) and (t, k, pattern).",
  ["the order-sensitive check falls back to an order-insensitive multiset comparison of interpolated coefficients",
   "random streams are seeded ChaCha20 plus targeted splices, not all streams"],
  {"deal": 2000, "horner_check": 50000, "recover": 30000, "deal_out_of_range": 300, "zero_point_stream": 100},
  [REL_LONG],
  "runtime differential monitor against a BigUint Shamir model with recorded/replayed random streams",
  "Held-on-observed: every dealt share satisfied y = f(x) for the replay-derived polynomials, x != 0, recovery exact.",
  "num-bigint trusted; Fp::random used only to map a recorded word stream to elements")

P("C07", "exploration",
  "operand pairs from a 52-value boundary lattice around 0, 1, 2^63/2^64/2^127/2^128, 12451, (p-1)/2, p-1 and Montgomery constants "
  "(ALL pairs lattice x lattice) plus seeded uniform operands; every operation of the field API (+ - neg double * square cube invert "
  "pow pow_vartime sqrt sqrt_ratio, assigning and iterator forms, from u64/u128/str, predicates) compared with num-bigint; 24-byte "
  "strings (canonical, >= p, second encodings v+p, high-limb bits, uniform) for decoding - directly, as x / y of a share on the wire, and as first / last element of a secret handed to the dealer; published constants checked against their "
  "ff::PrimeField meaning. distinct = operand pairs / input strings.",
  ["num-bigint 0.3 arithmetic is correct (independent of ff's Montgomery code)", "exhaustive only on the lattice; sampled elsewhere",
   "primality of p and (p-1)/2 by Miller-Rabin with 24 prime bases"],
  {"mul": 2000, "invert": 500, "sqrt": 500, "decode_noncanonical": 1000, "const_checks": 1},
  [REL],
  "runtime differential monitor: every Fp operation vs num-bigint on lattice^2 + uniform operands; constant-meaning checks",
  "Exhaustive on the boundary lattice squared, 2e5 (quick) / 2e7 (thorough) sampled pairs elsewhere; not a proof over 2^258 pairs.",
  "trusts num-bigint; constants judged by orders/residuosity, not by value")

P("C08", "fault_enumeration",
  "(a) honest reports / adss shares (message and coin lengths to 5 000 and 65 535 / 65 536 / 70 000, thorough 100 000; ciphertext chunks around 2^16) / Shamir shares with 0..16 y: "
  "decode(encode(v)) == v and every field equal to ground truth under the independent layout parser; (b) differential decoding of "
  "hostile strings for Share::try_from, adss::Share::from_bytes, sta_rs::Share::from_bytes, Message::from_bytes, load_bytes, load_u32, "
  "AccessStructure::from_bytes: every prefix, every length field set to 21 boundary values, byte/bit faults at every offset, "
  "out-of-range elements in x and every y, trailing bytes, splices, uniform strings; model says reject or accept-with-canonical-form "
  "and the decoder must agree and re-encode to exactly that form. distinct = (decoder, input bytes).",
  ["the layout model is the documented layout (4-byte LE lengths, 24-byte LE canonical elements, 64-byte J, trailing partial element "
   "and bytes after the report tag ignored)"],
  {"differential": 100000, "both_accept": 20000, "both_reject": 20000, "report_roundtrip": 1000, "adss_roundtrip": 500, "sharks_roundtrip": 500},
  [REL, DEV, FUZZ_C08],
  "runtime differential decoding against an independent layout parser (release and overflow-checked dev builds; libFuzzer in thorough)",
  "Every enumerated structural fault of every generated artefact was decoded by both the real decoder and the model; agreement on "
  "accept/reject and on the canonical re-encoding.",
  "model written from the documented layout, shares no code with the crates")

P("C09", "fault_enumeration",
  "the hostile corpus of C08 plus degenerate collections (no y, thresholds 0 / 2^31 / 2^32-1, mixed y counts, duplicates, empty), "
  "public keys / proofs / JSON evaluations and points under prefix / byte / length faults and size limits, Server::eval on arbitrary "
  "32-byte points x tags x verifiable, Client::verify on every combination of garbled public-key point / input / output / missing or "
  "random proof / tag, group_shares on illegal base64, padding, CRLF, empty lines, truncations and base64 of mutated shares; every "
  "call in catch_unwind inside child processes that publish the case index (aborts are attributed too). distinct = (entry point, input).",
  ["panic = unwind builds; aborts detected through child exit status", "inputs are at most ~1 MiB; RLIMIT_AS 8 GiB in plain builds"],
  {"call:MessageFromBytes": 5000, "call:AdssFromBytes": 5000, "call:ClientVerify": 5000, "call:GroupShares": 3000,
   "call:ServerEval": 500, "call:AdssRecover": 200, "call:ShareRecover": 200, "call:SharksRecover": 200, "call:PkLoad": 1000,
   "call:ProofLoad": 500, "call:JsonEvaluation": 1000, "call:SharksTryFrom": 2000, "call:LoadBytes": 500, "children_completed": 1},
  [REL, DEV, ASAN_C09, VALGRIND_C09, MIRI_C09, FUZZ_C09],
  "runtime panic/abort observer over a structure-aware hostile corpus (release + dev; ASan, Miri, valgrind, libFuzzer in thorough)",
  "Every listed entry point was called on every enumerated malformed / degenerate input; no panic, abort or sanitizer report, and "
  "structurally invalid input came back through the failure channel.",
  "crash-freedom is shown for the generated corpus only; sanitizer stages see what the corpus reaches")

P("C10", "exploration",
  "real GGM keys cloned at branch points: E1 all 2^8 subsets and all 1 024 single-step transitions of aligned / consecutive / random "
  "8-leaf sub-domains (thorough also 16-leaf: 65 536 subsets, 524 288 transitions each) plus every puncture order for |S|<=4; E2 "
  "ordered pairs over the full domain (quick 28 first elements x 255, thorough all 65 280); E3 complete puncturing (256 steps) in "
  "random / ascending / descending / bit-reversed / Gray / sibling-first / subtree-last orders with double punctures and wrong-length "
  "inputs; after every step the full 256-entry behaviour table is compared with baseline + punctured-set model. states = distinct "
  "punctured sets visited.",
  ["each task uses its own fresh key (values differ per key; behaviour is relational to that key's baseline)"],
  {"table_checks": 10000, "punctures": 10000, "subdomain_transitions": 3000, "ordered_pairs": 3000, "complete_puncturings": 7},
  [REL_LONG, MIRI_TINY],
  "runtime reference-model monitor (baseline table + punctured set) over exhaustive sub-domain exploration of the real key",
  "Exhaustive over the listed sub-spaces (exhaustive_subspaces=true in the evidence), sampled long sequences beyond.",
  "256-input domain fully evaluated after every transition")

P("C11", "exploration",
  "every state of the C10 exploration (all 256 first elements of the ordered pairs, 8- and 16-leaf sub-domains, long sequences) read "
  "through the verif-hooks view of the retained nodes: I2 no retained prefix is an ancestor of a punctured leaf, I3 every unpunctured "
  "leaf covered, I5 no retained seed equals a shadow-tree seed on a root->punctured-leaf path; Server-level histories over all 256 "
  "tags with export -> bincode -> import into a fresh server at EVERY position: exported bytes scanned for forbidden seeds (layout-free), "
  "importer view equal to exporter's, attacker run evaluating every punctured tag on the importer; the same exports also go into two "
  "PERSISTENT replicas (re-synced at every / every 3rd position) that already hold an earlier state. states = distinct punctured sets.",
  ["needs ppoprf feature verif-hooks (read-only view of private fields)", "remnants in freed heap memory are out of scope of the statement"],
  {"material_checks": 100000, "exports": 500, "imports": 500, "attacker_evaluations": 10000},
  [REL],
  "runtime invariant hooks on retained key material + export scan + import-and-attack, over the C10 state exploration",
  "Held on ~1.2e6 key states and ~3e3 export positions per quick run.",
  "shadow tree uses the repository's own PRG through the hook but the monitor's own tree logic",
  controls=["shadow_tree_reproduces_baseline", "shadow_tree_complete", "export_scan_finds_retained_seeds", "importer_evaluates_unpunctured_tag"])

P("C12", "exploration",
  "4 independently keyed servers (tag sets incl. 0/255, adjacent tags, all 256; two servers with equal tag sets), inputs empty / 1 byte / "
  "64 B / 2-10 KiB / near-identical, >= 3 independent blind->eval->unblind->finalize rounds per (server, tag, input), verifiable and "
  "not; unblinded result compared with the server's direct evaluation of the unblinded input point; global injectivity of result "
  "points and outputs; freshness sets for blinded requests and blinding scalars; input-length sweep (every length 0..340, thorough "
  "0..1100, on two servers x two tags). distinct = (server, tag, input) per case.",
  ["the unblinded input point is observed relationally as unblind(blind(x))"],
  {"rounds": 5000, "direct_evaluations": 5000, "verifications": 2000},
  [REL],
  "runtime relational PRF monitor with global injectivity and freshness sets",
  "Held-on-observed over >= 3e4 rounds per quick run.",
  ">= 252-bit values: chance collisions ignored")

P("C13", "fault_enumeration",
  "per case 6 honest verifiable evaluations (completeness directly, after pk bincode + evaluation JSON, after proof bincode); nonce "
  "monitor recomputing s*G + c*PK from the public verification equation over all proofs of the run; single-component tampering of "
  "(base public key, per-tag public key, whole key of another server, input point, output point, tag, c, s, whole proof) by: other "
  "honest value, +-G / 2x / negation / random multiple, identity, base point, +-1 / negation / bit flips (16 sampled, thorough all 256) "
  "/ zero / one for scalars, other registered and unregistered tags; reference verification procedure on every honest proof "
  "(challenge over B, M, Z, t2, t3 recomputed with the Strobe hash; on mismatch the five one-element-dropped transcripts are tried); "
  "calibrated adversarial prover: a public key built from the monitor's own scalars, the honest prover algorithm run on 10 false "
  "claims (identity, base point, the input, neighbours of the true output, another key's evaluation, identity input). "
  "distinct = (component, variant, case).",
  ["tampering another tag's entry, or compensating base/tag changes, keep the commitment and must verify (excluded by the statement)"],
  {"tampered_verifications": 30000, "honest_proofs": 1000, "nonce_commitments_recomputed": 1000},
  [REL],
  "runtime fault enumeration on verification inputs + nonce-commitment set monitor",
  "Every enumerated single-component replacement was rejected (or refused at load); all honest proofs verified through every "
  "serialisation path; all recomputed commitments pairwise distinct.",
  "single-component faults; multi-component forgeries are out of reach of enumeration",
  controls=["untampered_tuple_verifies"])

P("C14", "exploration",
  "(a) bounded-exhaustive: EVERY sequence of depth 5 (thorough 6) over {eval(a), eval(b), eval(u), puncture(a), puncture(b), "
  "puncture(u), export+import into a fresh instance, clone+switch, re-sync into the oldest instance} for 4 (thorough 6) tag "
  "configurations incl. 0/255/adjacent tags, all instances checked against the "
  "sequential model at every leaf; (b) random histories (100-260 ops, thorough to 2 000) over 2..256 registered tags with a throw-away "
  "export->import->compare at EVERY position; (c) concurrent stress in the shape of examples/server.rs (Arc<RwLock<Server>>, 8-15 "
  "evaluating threads, a puncturing and an exporting thread, seeded yields), call/return tickets from one atomic clock, offline "
  "per-tag checker. states = distinct operation sequences; transitions = operations executed in the exhaustive part.",
  ["thread interleavings are whatever the stress produced; overlapping eval/puncture pairs are counted"],
  {"exhaustive_sequences": 30000, "export_positions": 3000, "importer_comparisons": 50000, "concurrent_events": 5000,
   "histories_with_real_overlap": 1},
  [REL_LONG, TSAN_C14],
  "runtime sequential reference model: bounded-exhaustive operation sequences on the real Server + offline history checker for the concurrent stress",
  "All 9^5 (9^6) sequences per configuration executed; held on every leaf; concurrent histories checked offline.",
  "model: registered set fixed at creation, punctured set per instance, memo of answers")

P("C15", "fault_enumeration",
  "public keys of tag-set sizes 0,1,2,8,255,256 (thorough every size 0..256): bincode round trip, equality, byte-identical "
  "re-serialisation, interchangeability in verification; proofs (64 bytes) and Evaluations with/without proof and Points through "
  "serde_json to_string/from_str and to_vec/from_slice; every strict prefix, map length +-k, trailing bytes, padding to limit-1 / "
  "limit / limit+1 / limit+64 / 10x, duplicate and unsorted tags, non-canonical scalars (l, l+1, 2^255-1, FF), bit flips, uniform "
  "strings judged against an independent model of the pinned bincode layout. distinct = input byte strings.",
  ["bincode default options: fixed-width LE integers, trailing bytes accepted", "serde_json::from_reader / escaped strings are noted, not asserted"],
  {"pk_malformed_inputs": 3000, "proof_malformed_inputs": 5000, "pk_roundtrips": 20, "json_roundtrips": 40},
  [REL],
  "runtime round-trip monitor + differential decoding against an independent bincode-layout model",
  "Every enumerated malformed input was judged by model and loader; agreement on accept/reject and on the loaded value.",
  "layout model pinned by the repository's own serialisation tests")

P("C16", "exploration",
  "thresholds 0..128, message and coin lengths {0,1,15,16,17,31,32,33,R-1,R,R+1,2R-1,2R,2R+1,1000 (thorough 20k/100k)} and random, "
  "uniform / zero content; t+2 shares from independent Commune::new(..).share() calls: fields other than the point byte-identical, "
  "points distinct and on one polynomial, any t recover, t-1 do not, threshold 0 never recovers, recovered sharing re-shares and "
  "mixes with the originals, foreign transcripts rejected (all-foreign, and one genuine + t-1 foreign; in half of the cases the foreign "
  "sharing, or the same (M, R) under another threshold, is shared first on the same thread), lists with repeated shares recover, "
  "thresholds 127..257 occasionally. distinct = (t, |M|, |R|, content classes).",
  ["a transcript equal to the default is not asserted (would copy an internal label)"],
  {"share": 20000, "recover": 3000, "recover_mixed": 1000, "recover_t0": 100, "recover_foreign_transcript": 300},
  [REL_LONG],
  "runtime determinism / re-share monitor with independent layout and BigUint polynomial checks",
  "Held-on-observed over 6e3 sharings per quick run.",
  "layout parser + BigUint trusted")

P("C17", "exploration",
  "create_share / group_shares called natively over arbitrary-byte measurements (incl. empty, zero), t=1..32, epochs empty / ASCII / "
  "multi-byte UTF-8 / control characters, 2t shares per case: strict JSON, base64 fields, equality with the core library's key and "
  "tag, share equal to a core share but for its point; grouping with t, t+1, 2t shares and with the seven selection patterns of C01 "
  "(repeats anywhere / in front, permutations, surplus), t-1 shares (also padded with repeats), "
  "mixtures below every threshold, eight wrong epochs (incl. whitespace-edged), whitespace-edged epochs, and sequences of consecutive "
  "create_share calls whose epoch||measurement bytes coincide (boundary shifts). distinct = (t, measurement length, epoch).",
  ["star-wasm is built as an rlib and called natively (wasm-bindgen glue not exercised)"],
  {"create_share": 10000, "group_shares": 3000, "group_shares_below_threshold": 1000, "group_shares_mixture": 1000, "group_shares_wrong_epoch": 3000},
  [REL_LONG],
  "runtime wrapper-faithfulness monitor against the core library",
  "Held-on-observed over 5e3 cases per quick run.",
  "core library behaviour itself is covered by C01/C02/C04")

P("C18", "exploration",
  "scenarios of 1..300 groups, group sizes 1..2t around t in {1,2,3,5,8} (t-1, t, t+1 frequent) plus hot groups of 64..200 reports, one report per client, aux absent / "
  "empty / unique client id, input in generation / reversed / shuffled order, rayon pools of 1,2,3,4,8,16 threads; output "
  "canonicalised to measurement -> sorted aux multiset (empty == absent) and compared with the expected map and across all runs of a "
  "scenario; the verif-hooks callback records bucket -> worker thread and injects seeded jitter. states = distinct (pool size, "
  "bucket->thread assignment) vectors seen.",
  ["needs star-test-utils feature verif-hooks", "replayed copies of one report are outside 'honest reports'"],
  {"server_runs": 300, "buckets_observed_by_hook": 3000, "runs_on_several_worker_threads": 3, "pool16_runs_on_several_threads": 1,
   "pool2_runs_on_several_threads": 1},
  [REL_LONG, TSAN_C18, MIRI_TINY],
  "runtime conservation/exactly-once monitor with unique client ids + schedule fingerprints via hook",
  "Held on every (scenario, pool, permutation) run; distinct schedules counted in the evidence.",
  "schedules are whatever rayon + jitter produced")

# workload classes added after the later seeded-change rounds (DESIGN.md section 11)
_RULE_ADDENDA = {
    "C01": " Plus replay floods: one report repeated 65 535..131 072 times in front of the other t-1 (thorough more); an every-threshold "
           "sweep (t clients, exactly t reports in shuffled order, t = 1..320, thorough 1..1024); text values entering through From<&str>, "
           "with white space at their edges.",
    "C02": " Plus foreign sharings whose (measurement, epoch) is the target's with a separator byte shifted across the boundary, near "
           "measurements differing beyond byte 64, large thresholds also 1025/1100, the adss-level relation C^D == M^R, and a bit-balance "
           "monitor over all interpolated coefficients of the run (n >= 512; value and value*2^192 mod p), and sharings dealt from a hostile "
           "random source (1..100 sampler rejections in a row before a coefficient): exact degree, non-zero coefficients; secrets of 2..4 "
           "elements at the Shamir level: no coefficient twice across the elements, one share against the elements' differences; t-1 genuine Shamir shares padded, at every "
           "position, with one share of a secret of another element count at a fresh point: Sharks::recover must fail.",
    "C03": " Plus XOR combinations of the 32-byte report fields (C, D, tag, ...) tried as key and key seed, and an attacker who knows "
           "part of the victim's measurement (prefix / suffix / all but one byte / case / padding) and submits t-1 or t reports of its own; "
           "payloads of 4..9 KiB; the XOR relation re-appearing beyond the first block (pairs) or between two stretches of one report.",
    "C04": " Plus separator-aware boundary shifts (| , : / ; space newline NUL - _ .), components swapped through LE/BE renderings, and "
           "generators built for another measurement, used, then re-targeted through their public field; text values differing only in "
           "white space at their edges, entering through From<&str>.",
    "C05": " Plus element faults (0, 1, p-1, 2^128) on x / y, random-length sharings, and floods: an altered or foreign first share, "
           "65 535..131 073 repeats, then another whole sharing.",
    "C06": " Plus zero runs of 1..300 draws at the point draw, the public evaluator over polynomials of mixed degrees, iterator adaptors "
           "(nth, skip, step_by), an every-threshold sweep (1..320, thorough 1..1024), one dealer asked for 65 537..131 080 sequential "
           "shares, the thread-RNG convenience dealer with a run-global set of its coefficients, and rejection runs (1..100) in the recorded stream.",
    "C07": " Plus a,b,a operation sequences (inversion, evaluator), canonical elements of the band [2^128, p) through the share path, and "
           "two-point interpolation over every pair of the boundary lattice.",
    "C08": " Plus canonical elements of the band [2^128, p) in every generated share and giant shares (43 689..100 000 elements).",
    "C09": " Plus authentic adss communes with non-standard message / coin lengths through group_shares, and Server::eval on a server "
           "whose key was imported and on eight servers with puncture histories (every one of the 256 tags asked for).",
    "C10": " Plus keys that travel between threads (every fifth early puncture of a long sequence on a fresh thread) and wrong input "
           "lengths 0,2,3,33,255..258,512,513,769,65 536,65 537.",
    "C11": " Plus servers with 1..3 configured tags whose unregistered tags are punctured first, with repeated tags in the list; the "
           "invariant 'a refused input is covered by no retained node', and a replica that runs ahead, is re-synced and catches up.",
    "C12": " Plus re-imported blinds and imports of inconsistent key states (afterwards the server is its old self or the imported state), "
           "and outputs / proofs of unpunctured tags re-checked along puncture histories.",
    "C13": " Plus completeness re-checked after puncture histories (lowest-first, middle, highest-first), and after a key "
           "synchronisation into servers that already publish keys for the same tags, a subset or a superset (evaluations of the "
           "importer verify under the key it publishes afterwards and under the exporter's key).",
    "C14": " Plus identity and base point in the point pool, tag lists with repeats, re-sync into a live instance.",
    "C15": " Plus the same JSON value with members reordered / re-spaced, valid-after-invalid loads, request points neutral element / "
           "base point; acceptance is demanded only of encodings of group elements.",
    "C16": " Plus six refused collection shapes (no y, threshold 0, sub-threshold, ...) each followed at once by an honest recovery, "
           "an every-threshold sweep (t independent share() calls, t = 1..320, thorough 1..1024), and shares of the same sharing on chosen "
           "structured points incl. pairs congruent mod 2^128; messages equal to the encoded threshold (LE, BE, 8 bytes) or to the coins.",
    "C17": " Plus empty vs NUL measurements, an every-threshold sweep (1..700, thorough 1..1024), and calls right after a call refused "
           "for an undecodable line that followed t-1 good lines.",
    "C18": " Plus sibling measurements differing in trailing zeros, long aux, and a poisoned batch on the same server object before the "
           "honest runs; every small batch composition around the threshold ([t], [t-1], [t+1], [t,1], t singletons, [t,t], ...; t = 1..8); "
           "epochs with edge white space, multi-byte characters, 200+ bytes.",
}
for _k, _v in _RULE_ADDENDA.items():
    PROPS[_k]["rule"] += _v

# minimum event counts of the later streams (a starved stream makes the run inconclusive)
_MIN_ADDENDA = {
    "C01": {"threshold_sweep_scenarios": 300, "length_sweep_scenarios": 800, "replay_flood_scenarios": 4},
    "C02": {"coefficient_bit_balance_checked": 2, "hostile_source_sharings": 300, "multi_element_sharings": 300,
            "sub_threshold_padded_with_other_length_share": 1000},
    "C03": {"related_measurement_attacks": 2000, "pair_tails_scanned_for_resumed_reuse": 1000, "reports_scanned_for_internal_reuse": 200},
    "C07": {"interpolate_lattice_pairs": 1000},
    "C11": {"refusal_vs_material_checks": 10000, "replica_ahead_resyncs": 50},
    "C17": {"refused_calls_before_honest": 500},
    "C06": {"long_iterators": 2, "std_dealer": 500, "threshold_sweep": 300},
    "C10": {"wrong_length_calls": 100},
    "C12": {"history_rounds": 1000},
    "C15": {"json_structured_points": 100},
    "C16": {"threshold_sweep": 300, "recover_chosen_points": 500, "message_equals_threshold_encoding": 300,
            "message_equals_coins": 150},
    "C13": {"honest_verifications_after_key_sync": 1000},
    "C18": {"small_batch_scenarios": 50},
}
for _k, _v in _MIN_ADDENDA.items():
    PROPS[_k]["min_events"].update(_v)

# minimums that do not apply when the monitor established that there is nothing of that kind to observe
WAIVERS = {
    # a ciphertext that is longer than the payload (e.g. a per-report nonce inside the chunk) cannot be
    # aligned with the payload by the monitor: the within-report keystream scan does not apply
    "C03": {"ciphertext_length_differs_from_payload(noted)": ["reports_scanned_for_internal_reuse"]},
    "C18": {"server_never_used_more_than_one_thread": ["runs_on_several_worker_threads", "pool16_runs_on_several_threads",
                                                        "pool2_runs_on_several_threads"]},
}
