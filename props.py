"""Per-property tables used by check.py: claimed level, how cases are generated
and counted (rule), what the check trusts (assumptions), minimum event counts
below which a run is inconclusive, positive controls that must fire, stages."""

REL = {"name": "release", "profile": "release", "primary": True}
DEV = {"name": "dev", "profile": "dev", "primary": False, "args": ["--scale", "0.25"]}

PROPS = {}

PROPS["C07"] = {
    "level": "exploration",
    "rule": ("operand pairs from a boundary lattice around 0, 1, 2^63/2^64/2^127/2^128, 12451, (p-1)/2, p-1, Montgomery "
             "constants (all pairs lattice x lattice, exhaustively) plus seeded uniform operands; every operation of the "
             "field API compared with num-bigint arithmetic; 24-byte strings (canonical, >= p, high-limb, uniform) for "
             "decoding; published constants checked against their meaning in ff::PrimeField. A case is distinct by its "
             "operand values / input bytes; trivial duplicates are removed by hashing (op-independent)."),
    "assumptions": ["num-bigint 0.3 arithmetic is correct (independent of ff's Montgomery code)",
                    "operands are sampled, not enumerated: exhaustive only on the lattice",
                    "primality of p and (p-1)/2 by Miller-Rabin with 24 prime bases"],
    "min_events": {"mul": 2000, "invert": 500, "sqrt": 500, "decode_noncanonical": 1000, "const_checks": 1},
    "stages": [REL],
}

NOT_APPLICABLE = {}

MANIFEST_TEXT = {}
MANIFEST_TEXT["C07"] = {
    "technique": "runtime differential monitor: every Fp operation vs num-bigint on boundary lattice^2 + seeded uniform operands; constant-meaning checks",
    "level_text": ("Every field operation, decoding and published constant is executed on the real star_sharks::Fp and compared "
                   "with an independent big-integer model: exhaustively on a 52-value boundary lattice squared, sampled "
                   "(2e5 quick / 2e7 thorough pairs) elsewhere. Held-on-observed, not a proof over 2^258 pairs."),
    "level_note": "trusts num-bigint; sampling outside the lattice; constants judged by their ff::PrimeField meaning (orders, residuosity), not by value",
}
