#!/bin/sh
# usage: addprop.sh C06  -> registers module c06 in prop/mod.rs
ID=$1; m=$(echo $ID | tr 'C' 'c')
grep -q "pub mod $m;" src/prop/mod.rs || sed -i "s/^pub mod c07;/pub mod $m;\npub mod c07;/" src/prop/mod.rs
grep -q "\"$ID\" =>" src/prop/mod.rs || sed -i "s/    \"C07\" => c07::run(ctx),/    \"$ID\" => $m::run(ctx),\n    \"C07\" => c07::run(ctx),/" src/prop/mod.rs
