#!/bin/sh
# dev helper: build release and run one monitor, print a digest
cd /verif/harness && CARGO_NET_OFFLINE=true cargo build --release 2>&1 | grep -E "^error" -A14 | head -60
P=$1; shift
./target/release/mon $P "$@" | python3 -c "
import json,sys
j=json.load(sys.stdin)
print('counters',json.dumps(j['counters']))
print('distinct',j['distinct'],'states',j['states'],'trans',j['transitions'],'wall',round(j['wall_s'],1),'panics',j['panics_caught_total'])
print('controls',j['controls'])
print('sigs',j['violation_sigs'])
for v in j['violations'][:12]: print('  V',v['sig'],'|',v['detail'][:300])
print('notes',json.dumps(j['notes'])[:1500])
print('samples',json.dumps(j['samples'])[:1200])"
