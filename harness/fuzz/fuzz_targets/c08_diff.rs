#![no_main]
//! C08 under coverage guidance: the differential decoding oracle. A real panic
//! of a decoder is NOT this target's business (C09); only disagreement between
//! the decoder and the independent layout model aborts.
use libfuzzer_sys::fuzz_target;
use mon::exec::{exec, model, Outcome};
use mon::hostile::{Case, Target};

const TARGETS: [Target; 7] = [
  Target::SharksTryFrom,
  Target::AdssFromBytes,
  Target::StarShareFromBytes,
  Target::MessageFromBytes,
  Target::LoadBytes,
  Target::LoadU32,
  Target::AccessStructure,
];

fuzz_target!(|data: &[u8]| {
  if data.is_empty() {
    return;
  }
  let t = TARGETS[(data[0] as usize) % TARGETS.len()];
  let c = Case::one(t, "fuzz", data[1..].to_vec());
  let m = match model(&c) {
    Some(m) => m,
    None => return,
  };
  let real = std::panic::catch_unwind(|| exec(&c));
  match (m, real) {
    (Some(canon), Ok(Outcome::Accepted(re))) => {
      if re != canon {
        eprintln!("C08-DISAGREEMENT reencode-differs:{:?}", t);
        std::process::abort();
      }
    }
    (None, Ok(Outcome::Accepted(_))) => {
      eprintln!("C08-DISAGREEMENT malformed-accepted:{:?}", t);
      std::process::abort();
    }
    (Some(canon), Ok(Outcome::Rejected)) => {
      if mon::exec::input_is_canonical(&c, &canon) {
        eprintln!("C08-DISAGREEMENT valid-rejected:{:?}", t);
        std::process::abort();
      }
    }
    (Some(_), Err(_)) => {
      eprintln!("C08-DISAGREEMENT valid-input-panicked:{:?}", t);
      std::process::abort();
    }
    _ => {}
  }
});
