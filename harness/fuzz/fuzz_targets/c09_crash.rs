#![no_main]
//! C09 under coverage guidance + ASan: any panic / abort / sanitizer report of
//! a listed entry point on attacker bytes is a crash of this target.
use libfuzzer_sys::fuzz_target;
use mon::exec::exec;
use mon::hostile::{Case, Target};

fuzz_target!(|data: &[u8]| {
  if data.is_empty() {
    return;
  }
  let sel = data[0] % 16;
  let rest = &data[1..];
  let one = |t: Target| Case::one(t, "fuzz", rest.to_vec());
  let c = match sel {
    0 => one(Target::SharksTryFrom),
    1 => one(Target::AdssFromBytes),
    2 => one(Target::StarShareFromBytes),
    3 => one(Target::MessageFromBytes),
    4 => one(Target::LoadBytes),
    5 => one(Target::LoadU32),
    6 => one(Target::AccessStructure),
    7 => one(Target::PkLoad),
    8 => one(Target::ProofLoad),
    9 => one(Target::JsonPoint),
    10 => one(Target::JsonEvaluation),
    11 => {
      // the WASM grouping call takes text
      if std::str::from_utf8(rest).is_err() {
        return;
      }
      Case { target: Target::GroupShares, desc: "fuzz".into(), blobs: vec![rest.to_vec(), b"t".to_vec()], num: 0 }
    }
    12 | 13 | 14 => {
      // a collection of shares: chunks separated by a length byte
      let mut blobs = Vec::new();
      let mut i = 1usize;
      if rest.is_empty() {
        return;
      }
      let thr = rest[0] as u64;
      while i < rest.len() && blobs.len() < 8 {
        let l = (rest[i] as usize) * 2;
        i += 1;
        let end = (i + l).min(rest.len());
        blobs.push(rest[i..end].to_vec());
        i = end;
      }
      let t = match sel {
        12 => Target::SharksRecover,
        13 => Target::AdssRecover,
        _ => Target::ShareRecover,
      };
      Case { target: t, desc: "fuzz".into(), blobs, num: if thr > 200 { u32::MAX as u64 } else { thr } }
    }
    _ => {
      // Client::verify: pk | input | output | proof
      if rest.len() < 1 + 32 + 32 {
        return;
      }
      let md = rest[0];
      let input = rest[1..33].to_vec();
      let output = rest[33..65].to_vec();
      let tail = &rest[65..];
      let (proof, pk) = if tail.len() >= 64 && md % 3 != 0 { (tail[..64].to_vec(), tail[64..].to_vec()) } else { (vec![], tail.to_vec()) };
      Case { target: Target::ClientVerify, desc: "fuzz".into(), blobs: vec![pk, input, output, proof], num: md as u64 }
    }
  };
  let _ = exec(&c);
});
