//! Executes one hostile case against the real entry point and reports what
//! came back through the function's own failure channel.

use crate::hostile::{Case, Target};
use crate::layout::{self, AdssShare, Report, SharkShare};
use std::convert::TryFrom;
use std::sync::OnceLock;

#[derive(Clone, Debug, PartialEq, Eq)]
pub enum Outcome {
  /// decoder accepted; canonical re-encoding of the decoded value
  Accepted(Vec<u8>),
  Rejected,
  True,
  False,
  /// the case could not be brought to the entry point (e.g. an inner blob is
  /// rejected by an earlier decoder)
  NotReached,
}

static SERVER: OnceLock<ppoprf::ppoprf::Server> = OnceLock::new();

pub fn eval_server() -> &'static ppoprf::ppoprf::Server {
  SERVER.get_or_init(|| ppoprf::ppoprf::Server::new(vec![0u8, 1, 7, 255]).expect("server"))
}

static IMPORTED: OnceLock<ppoprf::ppoprf::Server> = OnceLock::new();

/// created for tag 3 only, then synchronised from an instance registered for 0,1,7,255
pub fn imported_server() -> &'static ppoprf::ppoprf::Server {
  IMPORTED.get_or_init(|| {
    let src = ppoprf::ppoprf::Server::new(vec![0u8, 1, 7, 255]).expect("server");
    let mut dst = ppoprf::ppoprf::Server::new(vec![3u8]).expect("server");
    let bytes = bincode::serialize(&src.get_private_key()).expect("export");
    let st: ppoprf::ppoprf::ServerKeyState = bincode::deserialize(&bytes).expect("import");
    dst.set_private_key(st);
    dst
  })
}

/// puncture histories applied to servers that registered all 256 tags: last-level partners
/// (x, x ^ 0x80) in both orders, first-level partners, runs, everything but one tag
pub const PUNCTURE_HISTORIES: [&[u8]; 8] = [
  &[0, 128],
  &[128, 0],
  &[5, 133, 7, 135, 6],
  &[1, 3, 2, 0, 4],
  &[255, 127, 254, 126],
  &[0, 1, 2, 3, 4, 5, 6, 7, 8, 9, 10, 11, 12, 13, 14, 15, 128, 129, 130, 131],
  &[200, 72, 201, 73, 9, 137],
  &[64, 192, 32, 160, 96, 224, 16, 144],
];

static PUNCTURED: [OnceLock<ppoprf::ppoprf::Server>; 8] =
  [OnceLock::new(), OnceLock::new(), OnceLock::new(), OnceLock::new(), OnceLock::new(), OnceLock::new(), OnceLock::new(), OnceLock::new()];

/// built on first use (each history separately: key generation is slow under interpreters)
pub fn punctured_server(i: usize) -> &'static ppoprf::ppoprf::Server {
  let i = i % PUNCTURE_HISTORIES.len();
  PUNCTURED[i].get_or_init(|| {
    let mut s = ppoprf::ppoprf::Server::new((0..=255u8).collect()).expect("server");
    for t in PUNCTURE_HISTORIES[i].iter() {
      let _ = s.puncture(*t);
    }
    s
  })
}

pub fn exec(c: &Case) -> Outcome {
  let b0: &[u8] = c.blobs.first().map(|b| &b[..]).unwrap_or(&[]);
  match c.target {
    Target::SharksTryFrom => match star_sharks::Share::try_from(b0) {
      Ok(s) => Outcome::Accepted(Vec::from(&s)),
      Err(_) => Outcome::Rejected,
    },
    Target::AdssFromBytes => match adss::Share::from_bytes(b0) {
      Some(s) => Outcome::Accepted(s.to_bytes()),
      None => Outcome::Rejected,
    },
    Target::StarShareFromBytes => match sta_rs::Share::from_bytes(b0) {
      Some(s) => Outcome::Accepted(s.to_bytes()),
      None => Outcome::Rejected,
    },
    Target::MessageFromBytes => match sta_rs::Message::from_bytes(b0) {
      Some(m) => Outcome::Accepted(m.to_bytes()),
      None => Outcome::Rejected,
    },
    Target::LoadBytes => match adss::load_bytes(b0) {
      Some(ch) => Outcome::Accepted(ch.to_vec()),
      None => Outcome::Rejected,
    },
    Target::LoadU32 => match adss::load_u32(b0) {
      Some(v) => Outcome::Accepted(v.to_le_bytes().to_vec()),
      None => Outcome::Rejected,
    },
    Target::AccessStructure => match adss::AccessStructure::from_bytes(b0) {
      Some(a) => Outcome::Accepted(a.to_bytes().to_vec()),
      None => Outcome::Rejected,
    },
    Target::SharksRecover => {
      let shares: Result<Vec<star_sharks::Share>, _> = c.blobs.iter().map(|b| star_sharks::Share::try_from(&b[..])).collect();
      match shares {
        Err(_) => Outcome::NotReached,
        Ok(s) => match star_sharks::Sharks(c.num as u32).recover(&s) {
          Ok(v) => Outcome::Accepted(v),
          Err(_) => Outcome::Rejected,
        },
      }
    }
    Target::AdssRecover => {
      let shares: Option<Vec<adss::Share>> = c.blobs.iter().map(|b| adss::Share::from_bytes(b)).collect();
      match shares {
        None => Outcome::NotReached,
        Some(s) => match adss::recover(&s) {
          Ok(cm) => Outcome::Accepted(cm.get_message()),
          Err(_) => Outcome::Rejected,
        },
      }
    }
    Target::ShareRecover => {
      let shares: Option<Vec<sta_rs::Share>> = c.blobs.iter().map(|b| sta_rs::Share::from_bytes(b)).collect();
      match shares {
        None => Outcome::NotReached,
        Some(s) => match sta_rs::share_recover(&s) {
          Ok(cm) => Outcome::Accepted(cm.get_message()),
          Err(_) => Outcome::Rejected,
        },
      }
    }
    Target::PkLoad => match ppoprf::ppoprf::ServerPublicKey::load_from_bincode(b0) {
      Ok(pk) => Outcome::Accepted(pk.serialize_to_bincode().unwrap_or_default()),
      Err(_) => Outcome::Rejected,
    },
    Target::ProofLoad => match ppoprf::ppoprf::ProofDLEQ::load_from_bincode(b0) {
      Ok(p) => Outcome::Accepted(p.serialize_to_bincode().unwrap_or_default()),
      Err(_) => Outcome::Rejected,
    },
    Target::JsonPoint => match serde_json::from_slice::<ppoprf::ppoprf::Point>(b0) {
      Ok(p) => Outcome::Accepted(p.as_bytes().to_vec()),
      Err(_) => Outcome::Rejected,
    },
    Target::JsonEvaluation => {
      // the examples decode from &str / &[u8]
      match std::str::from_utf8(b0).ok().and_then(|s| serde_json::from_str::<ppoprf::ppoprf::Evaluation>(s).ok()) {
        Some(e) => Outcome::Accepted(serde_json::to_vec(&e).unwrap_or_default()),
        None => Outcome::Rejected,
      }
    }
    Target::ServerEval => {
      let p = ppoprf::ppoprf::Point::from(b0);
      let md = (c.num & 0xff) as u8;
      let ver = (c.num >> 8) & 1 == 1;
      let hist = (c.num >> 10) & 0xf;
      let srv = if hist > 0 {
        punctured_server(hist as usize - 1)
      } else if (c.num >> 9) & 1 == 1 {
        imported_server()
      } else {
        eval_server()
      };
      match srv.eval(&p, md, ver) {
        Ok(e) => Outcome::Accepted(e.output.as_bytes().to_vec()),
        Err(_) => Outcome::Rejected,
      }
    }
    Target::ClientVerify => {
      let pk = match ppoprf::ppoprf::ServerPublicKey::load_from_bincode(&c.blobs[0]) {
        Ok(p) => p,
        Err(_) => return Outcome::NotReached,
      };
      let input = ppoprf::ppoprf::Point::from(&c.blobs[1][..]);
      let output = ppoprf::ppoprf::Point::from(&c.blobs[2][..]);
      let proof = if c.blobs[3].is_empty() {
        None
      } else {
        match ppoprf::ppoprf::ProofDLEQ::load_from_bincode(&c.blobs[3]) {
          Ok(p) => Some(p),
          Err(_) => return Outcome::NotReached,
        }
      };
      let ev = ppoprf::ppoprf::Evaluation { output, proof };
      if ppoprf::ppoprf::Client::verify(&pk, &input, &ev, c.num as u8) {
        Outcome::True
      } else {
        Outcome::False
      }
    }
    Target::GroupShares => {
      let s = std::str::from_utf8(b0).unwrap_or("");
      let e = std::str::from_utf8(&c.blobs[1]).unwrap_or("");
      match star_wasm::group_shares(s, e) {
        Some(k) => Outcome::Accepted(k.into_bytes()),
        None => Outcome::Rejected,
      }
    }
  }
}

/// What the independent layout model says about a decoder input:
/// Some(Some(canonical)) = accept with this canonical re-encoding,
/// Some(None) = reject, None = the model has no opinion on this target.
pub fn model(c: &Case) -> Option<Option<Vec<u8>>> {
  let b0: &[u8] = c.blobs.first().map(|b| &b[..]).unwrap_or(&[]);
  match c.target {
    Target::SharksTryFrom => Some(SharkShare::decode(b0).map(|s| s.encode())),
    Target::AdssFromBytes | Target::StarShareFromBytes => Some(AdssShare::decode(b0).map(|s| s.encode())),
    Target::MessageFromBytes => Some(Report::decode(b0).map(|s| s.encode())),
    Target::LoadBytes => Some(layout::get_chunk(b0).map(|(c, _)| c.to_vec())),
    Target::LoadU32 | Target::AccessStructure => Some(layout::get_u32(b0).map(|v| v.to_le_bytes().to_vec())),
    _ => None,
  }
}

/// Is the input the canonical encoding of the value the model decodes it to (no ignored
/// trailing bytes, no ignored partial element)? Only canonical encodings MUST be accepted;
/// a decoder that refuses the non-canonical forms the documented layout tolerates is within
/// the statement of C08 (which binds a decoder only when it accepts).
pub fn input_is_canonical(c: &Case, canon: &[u8]) -> bool {
  let b0: &[u8] = c.blobs.first().map(|b| &b[..]).unwrap_or(&[]);
  match c.target {
    Target::SharksTryFrom => canon == b0,
    // ... and of the shape honest parties produce: one value per point (the 16-byte sharing key is one
    // element), a 32-byte tag, a ciphertext that can hold at least the measurement's length prefix
    Target::AdssFromBytes | Target::StarShareFromBytes => canon == b0 && AdssShare::decode(b0).map(|a| a.s.ys.len() == 1).unwrap_or(false),
    Target::MessageFromBytes => canon == b0 && Report::decode(b0).map(|r| r.share.s.ys.len() == 1 && r.tag.len() == 32 && r.ct.len() >= 4).unwrap_or(false),
    Target::LoadBytes => b0.len() == 4 + canon.len(),
    Target::LoadU32 | Target::AccessStructure => b0.len() == 4,
    _ => false,
  }
}
