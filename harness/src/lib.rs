//! Runtime monitors for brave/sta-rs: shared library part (oracles, generators,
//! hostile corpus, executor, per-property monitors). `main.rs` is the CLI; the
//! fuzz targets under /verif/fuzz link this library for the same oracles.
pub mod bigfield;
pub mod common;
pub mod exec;
pub mod gen;
pub mod hostile;
pub mod layout;
pub mod prop;
