//! Independent model of the documented wire layouts.
//!
//!  Shamir share : x[24] | y_1[24] | ... | y_k[24]      (LE canonical, < p; a
//!                 trailing partial element is ignored)
//!  adss share   : threshold u32 LE | len,S | len,C | len,D | J[64]
//!  report       : len,ciphertext | len,share | len,tag  (trailing bytes ignored)
//!  len          : u32 LE
//!
//! Nothing here calls into the repository's crates.

use crate::bigfield;
use std::ops::Range;

pub const ELEM: usize = 24;
pub const MAC: usize = 64;

#[derive(Clone, Debug, PartialEq, Eq)]
pub struct SharkShare {
  pub x: [u8; 24],
  pub ys: Vec<[u8; 24]>,
}

fn canon_elem(b: &[u8]) -> Option<[u8; 24]> {
  if b.len() != ELEM {
    return None;
  }
  if bigfield::from_le(b) >= bigfield::p() {
    return None;
  }
  let mut a = [0u8; 24];
  a.copy_from_slice(b);
  Some(a)
}

impl SharkShare {
  pub fn decode(b: &[u8]) -> Option<SharkShare> {
    if b.len() < ELEM {
      return None;
    }
    let x = canon_elem(&b[..ELEM])?;
    let n = (b.len() - ELEM) / ELEM;
    let mut ys = Vec::with_capacity(n);
    for i in 0..n {
      ys.push(canon_elem(&b[ELEM * (i + 1)..ELEM * (i + 2)])?);
    }
    Some(SharkShare { x, ys })
  }
  pub fn encode(&self) -> Vec<u8> {
    let mut v = self.x.to_vec();
    for y in &self.ys {
      v.extend_from_slice(y);
    }
    v
  }
  pub fn x_int(&self) -> num_bigint::BigUint {
    bigfield::from_le(&self.x)
  }
  pub fn y_int(&self, i: usize) -> num_bigint::BigUint {
    bigfield::from_le(&self.ys[i])
  }
}

pub fn put_u32(v: u32, out: &mut Vec<u8>) {
  out.extend_from_slice(&v.to_le_bytes());
}
pub fn put_chunk(b: &[u8], out: &mut Vec<u8>) {
  put_u32(b.len() as u32, out);
  out.extend_from_slice(b);
}

/// model of `load_bytes`: the chunk and the number of bytes consumed
pub fn get_chunk(b: &[u8]) -> Option<(&[u8], usize)> {
  if b.len() < 4 {
    return None;
  }
  let l = u32::from_le_bytes([b[0], b[1], b[2], b[3]]) as u64;
  if (b.len() as u64) < 4 + l {
    return None;
  }
  let l = l as usize;
  Some((&b[4..4 + l], 4 + l))
}

pub fn get_u32(b: &[u8]) -> Option<u32> {
  if b.len() != 4 {
    return None;
  }
  Some(u32::from_le_bytes([b[0], b[1], b[2], b[3]]))
}

#[derive(Clone, Debug, PartialEq, Eq)]
pub struct AdssShare {
  pub t: u32,
  pub s: SharkShare,
  pub c: Vec<u8>,
  pub d: Vec<u8>,
  pub j: [u8; 64],
}

/// byte ranges of the fields of an *encoded* adss share
#[derive(Clone, Debug)]
pub struct AdssFields {
  pub t: Range<usize>,
  pub s_len: Range<usize>,
  pub x: Range<usize>,
  pub ys: Vec<Range<usize>>,
  pub s_tail: Range<usize>,
  pub c_len: Range<usize>,
  pub c: Range<usize>,
  pub d_len: Range<usize>,
  pub d: Range<usize>,
  pub j: Range<usize>,
}

impl AdssShare {
  pub fn decode(b: &[u8]) -> Option<AdssShare> {
    Self::decode_with_fields(b).map(|x| x.0)
  }
  pub fn decode_with_fields(b: &[u8]) -> Option<(AdssShare, AdssFields)> {
    if b.len() < 4 {
      return None;
    }
    let t = get_u32(&b[..4])?;
    let mut off = 4usize;
    let (sb, n) = get_chunk(&b[off..])?;
    let s_off = off + 4;
    let s_lenr = off..off + 4;
    off += n;
    let (c, n) = get_chunk(&b[off..])?;
    let c_lenr = off..off + 4;
    let c_r = off + 4..off + n;
    off += n;
    let (d, n) = get_chunk(&b[off..])?;
    let d_lenr = off..off + 4;
    let d_r = off + 4..off + n;
    off += n;
    if b.len() - off != MAC {
      return None;
    }
    let mut j = [0u8; 64];
    j.copy_from_slice(&b[off..]);
    let s = SharkShare::decode(sb)?;
    let ny = s.ys.len();
    let f = AdssFields {
      t: 0..4,
      s_len: s_lenr,
      x: s_off..s_off + ELEM,
      ys: (0..ny)
        .map(|i| s_off + ELEM * (i + 1)..s_off + ELEM * (i + 2))
        .collect(),
      s_tail: s_off + ELEM * (ny + 1)..s_off + sb.len(),
      c_len: c_lenr,
      c: c_r,
      d_len: d_lenr,
      d: d_r,
      j: off..off + MAC,
    };
    Some((
      AdssShare {
        t,
        s,
        c: c.to_vec(),
        d: d.to_vec(),
        j,
      },
      f,
    ))
  }
  pub fn encode(&self) -> Vec<u8> {
    let mut out = Vec::new();
    put_u32(self.t, &mut out);
    put_chunk(&self.s.encode(), &mut out);
    put_chunk(&self.c, &mut out);
    put_chunk(&self.d, &mut out);
    out.extend_from_slice(&self.j);
    out
  }
}

#[derive(Clone, Debug, PartialEq, Eq)]
pub struct Report {
  pub ct: Vec<u8>,
  pub share: AdssShare,
  pub tag: Vec<u8>,
}

#[derive(Clone, Debug)]
pub struct ReportFields {
  pub ct_len: Range<usize>,
  pub ct: Range<usize>,
  pub share_len: Range<usize>,
  pub share: Range<usize>,
  pub tag_len: Range<usize>,
  pub tag: Range<usize>,
  pub end: usize,
}

impl Report {
  pub fn decode(b: &[u8]) -> Option<Report> {
    Self::decode_with_fields(b).map(|x| x.0)
  }
  pub fn decode_with_fields(b: &[u8]) -> Option<(Report, ReportFields)> {
    let mut off = 0usize;
    let (ct, n) = get_chunk(&b[off..])?;
    let ct_len = off..off + 4;
    let ct_r = off + 4..off + n;
    off += n;
    let (sb, n) = get_chunk(&b[off..])?;
    let sh_len = off..off + 4;
    let sh_r = off + 4..off + n;
    off += n;
    let share = AdssShare::decode(sb)?;
    let (tag, n) = get_chunk(&b[off..])?;
    let tag_len = off..off + 4;
    let tag_r = off + 4..off + n;
    off += n;
    Some((
      Report {
        ct: ct.to_vec(),
        share,
        tag: tag.to_vec(),
      },
      ReportFields {
        ct_len,
        ct: ct_r,
        share_len: sh_len,
        share: sh_r,
        tag_len,
        tag: tag_r,
        end: off,
      },
    ))
  }
  pub fn encode(&self) -> Vec<u8> {
    let mut out = Vec::new();
    put_chunk(&self.ct, &mut out);
    put_chunk(&self.share.encode(), &mut out);
    put_chunk(&self.tag, &mut out);
    out
  }
}

/// payload framing inside the ciphertext: len|measurement [len|aux]
pub fn frame_payload(m: &[u8], aux: Option<&[u8]>) -> Vec<u8> {
  let mut out = Vec::new();
  put_chunk(m, &mut out);
  if let Some(a) = aux {
    put_chunk(a, &mut out);
  }
  out
}

/// strict parser of a decrypted payload: (measurement, aux or absent)
pub fn parse_payload(p: &[u8]) -> Option<(Vec<u8>, Option<Vec<u8>>)> {
  let (m, n) = get_chunk(p)?;
  let rest = &p[n..];
  if rest.is_empty() {
    return Some((m.to_vec(), None));
  }
  let (a, n2) = get_chunk(rest)?;
  if n2 != rest.len() {
    return None;
  }
  Some((m.to_vec(), Some(a.to_vec())))
}
