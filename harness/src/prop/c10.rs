//! C10 — puncturing removes exactly the punctured inputs (behaviour table vs a
//! punctured-set reference model), and
//! C11 — forward security of retained and exported key material (hook
//! invariants over the same exploration + Server-level export/import).

use crate::common::*;
use ppoprf::ggm::GGM;
use ppoprf::PPRF;
use rand::seq::SliceRandom;
use rand::Rng;
use rand_chacha::ChaCha20Rng;
use serde_json::{json, Value};
use std::collections::{HashMap, HashSet};

#[derive(Clone, Copy, PartialEq, Eq)]
pub enum Mode {
  Behaviour, // C10
  Material,  // C11
}

type Seed = [u8; 32];

pub struct Key {
  pub g: GGM,
  pub f: Vec<Seed>, // baseline table
  /// shadow[(depth, low `depth` bits of the input)] = seed of that tree node
  pub shadow: HashMap<(u8, u8), Seed>,
}

fn eval1(g: &GGM, x: u8) -> Result<Seed, String> {
  let mut out = [0u8; 32];
  g.eval(&[x], &mut out).map(|_| out).map_err(|e| format!("{:?}", e))
}

fn mask(d: u8) -> u8 {
  if d >= 8 {
    0xff
  } else {
    (1u16 << d).wrapping_sub(1) as u8
  }
}

fn bits_to_node(bits: &[bool]) -> (u8, u8) {
  let mut v = 0u8;
  for (i, b) in bits.iter().enumerate().take(8) {
    if *b {
      v |= 1 << i;
    }
  }
  (bits.len() as u8, v)
}

impl Key {
  pub fn fresh(rec: &mut Rec, mode: Mode) -> Option<Key> {
    let g = GGM::setup();
    let mut f = Vec::with_capacity(256);
    for x in 0..=255u8 {
      match eval1(&g, x) {
        Ok(v) => f.push(v),
        Err(e) => {
          rec.violation("fresh-key-eval-failed", format!("a fresh key refused input {}: {}", x, e), json!({"input": x}));
          return None;
        }
      }
    }
    rec.evn("evaluations", 256);
    let distinct: HashSet<&Seed> = f.iter().collect();
    if distinct.len() != 256 {
      rec.violation("not-injective", format!("a fresh key maps 256 inputs to only {} values", distinct.len()), json!({}));
    }
    let mut shadow = HashMap::new();
    if mode == Mode::Material {
      // expand the whole tree from the two retained root children with the
      // repository's PRG but the monitor's own tree logic
      let mut frontier: Vec<((u8, u8), Seed)> = Vec::new();
      for (bits, seed) in g.verif_retained_nodes() {
        if seed.len() != 32 {
          continue;
        }
        let mut s = [0u8; 32];
        s.copy_from_slice(&seed);
        frontier.push((bits_to_node(&bits), s));
      }
      while let Some(((d, v), s)) = frontier.pop() {
        shadow.insert((d, v), s);
        if d < 8 {
          for b in [false, true] {
            let child = g.verif_prg(b, &s);
            let cv = if b { v | (1 << d) } else { v };
            frontier.push(((d + 1, cv), child));
          }
        }
      }
      // self-check of the shadow: its leaves are the baseline values
      let ok = (0..=255u8).all(|x| shadow.get(&(8, x)) == Some(&f[x as usize]));
      rec.control("shadow_tree_reproduces_baseline", ok && shadow.len() == 510);
      if !ok {
        return None;
      }
    }
    Some(Key { g, f, shadow })
  }
}

fn set_json(p: &[bool; 256]) -> Value {
  json!((0..256).filter(|&i| p[i]).collect::<Vec<_>>())
}

/// C10: full behaviour table against the model
fn check_table(rec: &mut Rec, k: &Key, g: &GGM, p: &[bool; 256], history: &[u8], probe_repuncture: &[u8]) -> bool {
  let mut ok = true;
  for x in 0..=255u8 {
    let r = eval1(g, x);
    if p[x as usize] {
      if let Ok(v) = r {
        rec.violation(
          "punctured-input-evaluates",
          format!("input {} was punctured but still evaluates (to {}the original value)", x, if v == k.f[x as usize] { "" } else { "a value other than " }),
          json!({"input": x, "history": history, "punctured": set_json(p)}),
        );
        ok = false;
      }
    } else {
      match r {
        Ok(v) if v == k.f[x as usize] => {}
        Ok(_) => {
          rec.violation(
            "value-changed",
            format!("input {} was never punctured but its value changed after the history {:?}", x, history),
            json!({"input": x, "history": history, "punctured": set_json(p)}),
          );
          ok = false;
        }
        Err(e) => {
          rec.violation(
            "unpunctured-input-lost",
            format!("input {} was never punctured but no longer evaluates ({}) after the history {:?}", x, e, history),
            json!({"input": x, "history": history, "punctured": set_json(p)}),
          );
          ok = false;
        }
      }
    }
    if !ok {
      break;
    }
  }
  rec.evn("evaluations", 256);
  rec.ev("table_checks");
  for &x in probe_repuncture {
    let mut c = g.clone();
    rec.ev("repuncture_attempts");
    if c.puncture(&[x]).is_ok() {
      rec.violation(
        "double-puncture-accepted",
        format!("input {} was punctured twice without an error", x),
        json!({"input": x, "history": history}),
      );
      ok = false;
    }
  }
  ok
}

/// C11: invariants on the retained key material
fn check_material(rec: &mut Rec, k: &Key, g: &GGM, p: &[bool; 256], history: &[u8], whose: &str) -> bool {
  let nodes = g.verif_retained_nodes();
  rec.ev("material_checks");
  let mut covered = [false; 256];
  let mut forbidden: HashSet<Seed> = HashSet::new();
  for x in 0..256usize {
    if p[x] {
      for d in 1..=8u8 {
        if let Some(s) = k.shadow.get(&(d, x as u8 & mask(d))) {
          forbidden.insert(*s);
        }
      }
    }
  }
  let mut ok = true;
  let mut prefix_free = true;
  let ids: Vec<(u8, u8)> = nodes.iter().map(|(b, _)| bits_to_node(b)).collect();
  for (i, (bits, seed)) in nodes.iter().enumerate() {
    let (d, v) = ids[i];
    if d == 0 || d > 8 {
      rec.ev("note:unexpected_prefix_length");
      continue;
    }
    // I2: not an ancestor of (or equal to) a punctured leaf
    for x in 0..256usize {
      if x as u8 & mask(d) == v {
        if p[x] {
          rec.violation(
            &format!("retained-ancestor-of-punctured:{}", whose),
            format!("{} key retains the tree node at depth {} (prefix {:?}) on the path to punctured input {}: the punctured value can be recomputed from it", whose, d, bits, x),
            json!({"input": x, "depth": d, "history": history, "retained_nodes": nodes.len()}),
          );
          ok = false;
          break;
        }
        covered[x] = true;
      }
    }
    // I5: no retained seed is a seed on a root->punctured-leaf path (by value)
    if seed.len() == 32 {
      let mut s = [0u8; 32];
      s.copy_from_slice(seed);
      if forbidden.contains(&s) {
        rec.violation(
          &format!("retained-forbidden-seed:{}", whose),
          format!("{} key retains a seed equal to a tree node on the path to a punctured input (stored under prefix {:?})", whose, bits),
          json!({"depth": d, "history": history}),
        );
        ok = false;
      }
      if k.shadow.get(&(d, v)) != Some(&s) {
        rec.ev("note:retained_seed_differs_from_shadow");
      }
    }
    for (j, (d2, v2)) in ids.iter().enumerate() {
      if i != j && *d2 <= d && v & mask(*d2) == *v2 {
        prefix_free = false;
      }
    }
    if !ok {
      break;
    }
  }
  if !prefix_free {
    rec.ev("note:retained_prefixes_not_prefix_free");
  }
  // I3: every unpunctured leaf still covered
  if ok {
    if let Some(x) = (0..256usize).find(|&x| !p[x] && !covered[x]) {
      rec.violation(
        &format!("unpunctured-not-covered:{}", whose),
        format!("{} key has no retained node covering unpunctured input {}", whose, x),
        json!({"input": x, "history": history}),
      );
      ok = false;
    }
  }
  ok
}

pub struct Explorer<'a> {
  pub mode: Mode,
  pub k: &'a Key,
}

impl<'a> Explorer<'a> {
  /// apply one puncture to `g` under the model and check the resulting state
  fn step(&self, rec: &mut Rec, g: &mut GGM, p: &mut [bool; 256], history: &mut Vec<u8>, x: u8) -> bool {
    rec.transitions += 1;
    rec.evals += 1;
    rec.ev("punctures");
    let before = p[x as usize];
    let r = g.puncture(&[x]);
    history.push(x);
    if before {
      rec.ev("double_punctures");
      if r.is_ok() {
        rec.violation("double-puncture-accepted", format!("input {} punctured twice without an error", x), json!({"history": history}));
        return false;
      }
    } else {
      if let Err(e) = r {
        rec.violation(
          "puncture-refused",
          format!("puncturing the unpunctured input {} failed: {:?}", x, e),
          json!({"history": history, "punctured": set_json(p)}),
        );
        return false;
      }
      p[x as usize] = true;
    }
    let mut bits = [0u64; 4];
    for i in 0..256 {
      if p[i] {
        bits[i / 64] |= 1 << (i % 64);
      }
    }
    rec.states.insert(hkey(&bits));
    match self.mode {
      Mode::Behaviour => check_table(rec, self.k, g, p, history, &[x]),
      Mode::Material => check_material(rec, self.k, g, p, history, "live"),
    }
  }
}

/// E1: exhaustive sub-domain: all subsets and all single-step transitions
/// `fixed`/`part`: the subsets are partitioned by their intersection with the
/// first `fixed` leaves of the sub-domain; this call explores the part whose
/// intersection is the bit mask `part` (so that one sub-domain can be spread
/// over several threads, each with its own fresh key).
fn subdomain(rec: &mut Rec, mode: Mode, dom: &[u8], kind: &str, orders_upto: usize, fixed: usize, part: u32) {
  let k = match Key::fresh(rec, mode) {
    Some(k) => k,
    None => return,
  };
  let ex = Explorer { mode, k: &k };
  let n = dom.len();
  rec.evals += 1;
  rec.case(&("subdomain", kind, dom.to_vec(), part));
  // DFS in ascending index order visits every subset once; from every subset
  // every single-step transition S -> S u {x} is executed on a clone
  fn dfs(ex: &Explorer, rec: &mut Rec, dom: &[u8], g: &GGM, p: &[bool; 256], hist: &Vec<u8>, next: usize) {
    let in_s = |i: usize| p[dom[i] as usize];
    for i in 0..dom.len() {
      if in_s(i) {
        continue;
      }
      let mut g2 = g.clone();
      let mut p2 = *p;
      let mut h2 = hist.clone();
      let ok = ex.step(rec, &mut g2, &mut p2, &mut h2, dom[i]);
      rec.ev("subdomain_transitions");
      if ok && i >= next {
        dfs(ex, rec, dom, &g2, &p2, &h2, i + 1);
      }
      if !ok {
        return;
      }
    }
  }
  let p0 = [false; 256];
  {
    let mut g = k.g.clone();
    let mut p = p0;
    let mut h = vec![];
    for i in 0..fixed {
      if part & (1 << i) != 0 && !ex.step(rec, &mut g, &mut p, &mut h, dom[i]) {
        return;
      }
    }
    dfs(&ex, rec, dom, &g, &p, &h, fixed);
  }
  rec.ev("subdomain_parts_exhausted");
  rec.exhaustive = true;
  // every puncture order for |S| <= orders_upto
  fn orders(ex: &Explorer, rec: &mut Rec, dom: &[u8], g: &GGM, p: &[bool; 256], hist: &Vec<u8>, depth: usize, upto: usize) {
    if depth == upto {
      return;
    }
    for i in 0..dom.len() {
      if p[dom[i] as usize] {
        continue;
      }
      let mut g2 = g.clone();
      let mut p2 = *p;
      let mut h2 = hist.clone();
      rec.ev("ordered_sequence_steps");
      if ex.step(rec, &mut g2, &mut p2, &mut h2, dom[i]) {
        orders(ex, rec, dom, &g2, &p2, &h2, depth + 1, upto);
      } else {
        return;
      }
    }
  }
  if orders_upto > 0 {
    orders(&ex, rec, dom, &k.g, &p0, &vec![], 0, orders_upto);
  }
  let _ = n;
}

/// E2: ordered pairs over the full domain starting with `x`
fn pairs_from(rec: &mut Rec, mode: Mode, xs: &[u8]) {
  let k = match Key::fresh(rec, mode) {
    Some(k) => k,
    None => return,
  };
  let ex = Explorer { mode, k: &k };
  for &x in xs {
    rec.evals += 1;
    let mut g1 = k.g.clone();
    let mut p1 = [false; 256];
    let mut h1 = vec![];
    if !ex.step(rec, &mut g1, &mut p1, &mut h1, x) {
      return;
    }
    for y in 0..=255u8 {
      if y == x {
        continue;
      }
      let mut g2 = g1.clone();
      let mut p2 = p1;
      let mut h2 = h1.clone();
      rec.ev("ordered_pairs");
      rec.case(&("pair", x, y));
      if !ex.step(rec, &mut g2, &mut p2, &mut h2, y) {
        return;
      }
    }
  }
}

fn bitrev(x: u8) -> u8 {
  x.reverse_bits()
}

pub fn order(rng: &mut ChaCha20Rng, kind: usize) -> (String, Vec<u8>) {
  let all: Vec<u8> = (0..=255u8).collect();
  match kind % 7 {
    0 => {
      let mut v = all;
      v.shuffle(rng);
      ("random".into(), v)
    }
    1 => ("ascending".into(), all),
    2 => {
      let mut v = all;
      v.reverse();
      ("descending".into(), v)
    }
    3 => ("bit-reversed".into(), all.iter().map(|x| bitrev(*x)).collect()),
    4 => ("gray-code".into(), all.iter().map(|x| x ^ (x >> 1)).collect()),
    5 => {
      // sibling first: x then its leaf sibling (the tree branches on the least
      // significant bit first, so the last level is bit 7)
      let mut v = Vec::new();
      let mut seen = [false; 256];
      let mut base: Vec<u8> = (0..=255u8).collect();
      base.shuffle(rng);
      for x in base {
        if !seen[x as usize] {
          v.push(x);
          v.push(x ^ 0x80);
          seen[x as usize] = true;
          seen[(x ^ 0x80) as usize] = true;
        }
      }
      ("sibling-first".into(), v)
    }
    _ => {
      // subtree last: everything outside one depth-3 subtree first, then the subtree
      let c = rng.gen_range(0..8u8);
      let mut a: Vec<u8> = (0..=255u8).filter(|x| x & 7 != c).collect();
      let mut b: Vec<u8> = (0..=255u8).filter(|x| x & 7 == c).collect();
      a.shuffle(rng);
      b.shuffle(rng);
      a.extend(b);
      ("subtree-last".into(), a)
    }
  }
}

/// E3: long sequence to complete puncturing, with double punctures sprinkled in
fn long_sequence(rec: &mut Rec, mode: Mode, idx: u64, rng: &mut ChaCha20Rng) {
  let k = match Key::fresh(rec, mode) {
    Some(k) => k,
    None => return,
  };
  let ex = Explorer { mode, k: &k };
  let (name, ord) = order(rng, idx as usize);
  rec.evals += 1;
  rec.ev(&format!("sequence:{}", name));
  rec.case(&("sequence", name.clone(), ord.clone()));
  let mut g = k.g.clone();
  let mut p = [false; 256];
  let mut h = Vec::new();
  // wrong-length inputs are refused and leave the key unchanged
  let check_wrong_len = |rec: &mut Rec, g: &mut GGM| {
    let before = (g.verif_retained_nodes(), g.verif_punctured());
    // incl. lengths that equal the right one modulo 2^8 and 2^16
    for l in [0usize, 2, 3, 33, 255, 256, 257, 258, 512, 513, 769, 65_536, 65_537] {
      let inp = vec![(7 + l) as u8; l];
      let mut out = [0u8; 32];
      rec.ev("wrong_length_calls");
      let e = g.eval(&inp, &mut out).is_ok();
      // (an accepted over-long puncture walks thousands of levels: not attempted once eval was accepted)
      let pu = !e && g.puncture(&inp).is_ok();
      if e || pu {
        rec.violation("wrong-length-accepted", format!("an input of {} bytes was accepted by {}", l, if e { "eval" } else { "puncture" }), json!({"length": l}));
      }
    }
    if (g.verif_retained_nodes(), g.verif_punctured()) != before {
      rec.violation("wrong-length-changed-key", "a refused wrong-length input changed the key".into(), json!({}));
    }
  };
  check_wrong_len(rec, &mut g);
  // evaluate everything once on this thread first (whatever per-thread state exists is now warm)
  if idx % 2 == 0 {
    for y in 0..=255u8 {
      let _ = eval1(&g, y);
    }
  }
  for (i, &x) in ord.iter().enumerate() {
    if idx % 2 == 0 && i % 5 == 0 && i < 60 {
      // this puncture happens on a fresh thread; evaluation continues on ours
      let _ = eval1(&g, x);
      let r = std::thread::scope(|s| s.spawn(|| g.puncture(&[x])).join());
      rec.ev("punctures_on_other_thread");
      rec.transitions += 1;
      h.push(x);
      match r {
        Ok(Ok(())) if !p[x as usize] => p[x as usize] = true,
        Ok(Err(_)) if p[x as usize] => {}
        _ => {
          rec.violation("puncture-refused", format!("puncture of {} on another thread failed / succeeded unexpectedly", x), json!({"history": h}));
          return;
        }
      }
      if ex.mode == Mode::Behaviour && !check_table(rec, ex.k, &g, &p, &h, &[x]) {
        return;
      }
      continue;
    }
    if !ex.step(rec, &mut g, &mut p, &mut h, x) {
      return;
    }
    if i % 37 == 5 {
      // double puncture of an earlier input
      let y = ord[rng.gen_range(0..=i)];
      if !ex.step(rec, &mut g, &mut p, &mut h, y) {
        return;
      }
    }
    if i == 100 || i == 255 {
      check_wrong_len(rec, &mut g);
    }
  }
  if p.iter().all(|b| *b) {
    rec.ev("complete_puncturings");
  }
  if idx < 2 {
    rec.sample(json!({"order": name, "first_steps": &ord[..12], "steps": h.len()}));
  }
}

fn subdomain_for(rng: &mut ChaCha20Rng, kind: usize, size: usize) -> (String, Vec<u8>) {
  let lv = (size as f64).log2() as u8; // size = 2^lv
  match kind % 3 {
    0 => {
      // aligned: one subtree at depth 8-lv (inputs sharing their low 8-lv bits)
      let low = 8 - lv;
      let c = rng.gen_range(0..(1u16 << low)) as u8;
      ("aligned".into(), (0..size as u16).map(|j| c | ((j as u8) << low)).collect())
    }
    1 => {
      // unaligned: consecutive integers (spread over the top of the tree)
      let c = rng.gen_range(0..=(256 - size)) as u8;
      ("consecutive".into(), (0..size).map(|j| c + j as u8).collect())
    }
    _ => {
      let mut all: Vec<u8> = (0..=255u8).collect();
      all.shuffle(rng);
      all.truncate(size);
      all.sort();
      ("random".into(), all)
    }
  }
}

/// Miri-sized run: one key, 6 punctures, 10 sampled inputs checked per step
fn tiny(ctx: &Ctx) -> Rec {
  let mut rec = Rec::new();
  let g0 = GGM::setup();
  let mut rng = case_rng(ctx, "tiny", 0);
  let probes: Vec<u8> = vec![0, 1, 2, 128, 129, 255, rng.gen(), rng.gen(), rng.gen(), rng.gen()];
  let base: Vec<Option<Seed>> = probes.iter().map(|&x| eval1(&g0, x).ok()).collect();
  let mut g = g0.clone();
  let mut punct: Vec<u8> = Vec::new();
  for step in 0..6 {
    let x = probes[(step * 3) % probes.len()];
    rec.evals += 1;
    rec.transitions += 1;
    rec.ev("punctures");
    let r = g.puncture(&[x]);
    if punct.contains(&x) {
      if r.is_ok() {
        rec.violation("double-puncture-accepted", format!("input {} punctured twice", x), json!({}));
      }
    } else if r.is_ok() {
      punct.push(x);
    }
    rec.case(&("tiny", step, x));
    for (i, &p) in probes.iter().enumerate() {
      let v = eval1(&g, p).ok();
      rec.ev("evaluations");
      if punct.contains(&p) {
        if v.is_some() {
          rec.violation("punctured-input-evaluates", format!("input {} evaluates after puncturing", p), json!({}));
        }
      } else if v != base[i] {
        rec.violation("value-changed", format!("input {} changed", p), json!({}));
      }
    }
  }
  let _ = g.verif_retained_nodes();
  rec.sample(json!({"tiny_history": punct}));
  rec
}

pub fn explore(ctx: &Ctx, mode: Mode) -> Rec {
  if ctx.flag("tiny") {
    return tiny(ctx);
  }
  let th = ctx.thorough();
  // material checks are ~100x cheaper than full behaviour tables
  let cheap = mode == Mode::Material;
  let mut rec = Rec::new();
  // E1
  let n_sub = ctx.n(if cheap { 24 } else { 6 }, if cheap { 96 } else { 48 });
  rec.merge(par_run(ctx, "subdomain8", n_sub, |rec, i, rng| {
    let (kind, dom) = subdomain_for(rng, i as usize, 8);
    subdomain(rec, mode, &dom, &kind, if i < 3 || th || cheap { 4 } else { 3 }, 0, 0);
    if i < 3 {
      rec.sample(json!({"subdomain": kind, "leaves": dom}));
    }
  }));
  if th || cheap {
    // 16-leaf sub-domains: 65 536 subsets, 524 288 transitions each
    let n16 = if th { if cheap { 12 } else { 3 } } else { 2 };
    rec.merge(par_run(ctx, "subdomain16", ctx.n(n16, n16) * 16, |rec, i, _rng| {
      let mut r = case_rng(ctx, "subdomain16-domain", i / 16);
      let (kind, dom) = subdomain_for(&mut r, (i / 16) as usize, 16);
      subdomain(rec, mode, &dom, &format!("{}-16", kind), 0, 4, (i % 16) as u32);
      if i % 16 == 0 {
        rec.sample(json!({"subdomain16": kind, "leaves": dom}));
      }
    }));
  }
  // E2: ordered pairs; quick samples first elements, thorough takes all 256
  let firsts: Vec<u8> = if th || cheap {
    (0..=255u8).collect()
  } else {
    let mut r = case_rng(ctx, "pair-firsts", 0);
    let mut v: Vec<u8> = (0..=255u8).collect();
    v.shuffle(&mut r);
    v.truncate(24);
    v.extend([0u8, 255, 1, 128]);
    v.sort();
    v.dedup();
    v
  };
  rec.note("ordered_pair_first_elements", json!(firsts.len()));
  let chunks: Vec<Vec<u8>> = firsts.chunks(2).map(|c| c.to_vec()).collect();
  rec.merge(par_run(ctx, "pairs", chunks.len() as u64, |rec, i, _rng| pairs_from(rec, mode, &chunks[i as usize])));
  // E3
  let n_seq = ctx.n(if cheap { 112 } else { 14 }, if cheap { 2800 } else { 280 });
  rec.merge(par_run(ctx, "sequence", n_seq, |rec, i, rng| long_sequence(rec, mode, i, rng)));
  rec
}

pub fn run(ctx: &Ctx) -> Rec {
  explore(ctx, Mode::Behaviour)
}
