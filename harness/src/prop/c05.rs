//! C05 — authenticated recovery: the shared message or an error.
//! Fault enumeration over every field of the share layout x byte position x
//! fault x position of the faulted share; mixtures of several sharings.

use crate::common::*;
use crate::layout::{AdssFields, AdssShare};
use adss::{recover, Commune, Share};
use rand::seq::SliceRandom;
use rand::Rng;
use rand_chacha::ChaCha20Rng;
use serde_json::json;
use std::ops::Range;

#[derive(Clone)]
struct Sharing {
  t: u32,
  m: Vec<u8>,
  enc: Vec<Vec<u8>>, // encoded honest shares (t + 2)
}

fn make_sharing(rng: &mut ChaCha20Rng, t: u32, ml: usize, rl: usize) -> Option<Sharing> {
  let m = rand_bytes(rng, ml);
  let r = rand_bytes(rng, rl);
  let mut enc = Vec::new();
  for _ in 0..t + 2 {
    enc.push(Commune::new(t, m.clone(), r.clone(), None).share().ok()?.to_bytes());
  }
  Some(Sharing { t, m, enc })
}

const FAULTS: [&str; 5] = ["flip0", "flip7", "inc", "zero", "ff"];
const FAULTS_ALL: [&str; 11] = ["flip0", "flip1", "flip2", "flip3", "flip4", "flip5", "flip6", "flip7", "inc", "zero", "ff"];

fn apply(b: u8, f: &str) -> u8 {
  match f {
    "inc" => b.wrapping_add(1),
    "zero" => 0,
    "ff" => 0xff,
    _ => {
      let bit: u32 = f[4..].parse().unwrap();
      b ^ (1 << bit)
    }
  }
}

fn fields_list(f: &AdssFields) -> Vec<(&'static str, Range<usize>)> {
  let mut v = vec![
    ("threshold", f.t.clone()),
    ("S_len", f.s_len.clone()),
    ("x", f.x.clone()),
  ];
  for y in &f.ys {
    v.push(("y", y.clone()));
  }
  v.push(("C_len", f.c_len.clone()));
  v.push(("C", f.c.clone()));
  v.push(("D_len", f.d_len.clone()));
  v.push(("D", f.d.clone()));
  v.push(("J", f.j.clone()));
  v
}

/// The oracle. `first_msg` is the message of the sharing the first share of the
/// collection belongs to; `must_fail` is set when the share supplying the
/// ciphertext was altered in value.
fn judge(
  rec: &mut Rec,
  coll: &[Vec<u8>],
  first_msg: &[u8],
  must_fail: bool,
  what: &str,
  star_level: bool,
  replay: impl Fn() -> serde_json::Value,
) {
  rec.ev("recover_faulted");
  let out: Option<Result<Vec<u8>, String>> = quiet(rec, || {
    if star_level {
      let shares: Option<Vec<sta_rs::Share>> = coll.iter().map(|b| sta_rs::Share::from_bytes(b)).collect();
      match shares {
        None => Err("decode".to_string()),
        Some(s) => sta_rs::share_recover(&s).map(|c| c.get_message()).map_err(|e| e.to_string()),
      }
    } else {
      let shares: Option<Vec<Share>> = coll.iter().map(|b| Share::from_bytes(b)).collect();
      match shares {
        None => Err("decode".to_string()),
        Some(s) => recover(&s).map(|c| c.get_message()).map_err(|e| e.to_string()),
      }
    }
  });
  match out {
    None => rec.ev("outcome_panic(no answer)"),
    Some(Err(e)) => {
      if e == "decode" {
        rec.ev("outcome_decode_reject")
      } else {
        rec.ev("outcome_err")
      }
    }
    Some(Ok(m)) => {
      if m != first_msg {
        rec.violation(
          &format!("wrong-message:{}", what),
          format!("recovery returned {} which is not the message {} of the first share's sharing ({})", hex_short(&m), hex_short(first_msg), what),
          replay(),
        );
      } else if must_fail {
        rec.violation(
          &format!("altered-first-share-accepted:{}", what),
          format!("the share supplying the ciphertext was altered ({}) and recovery still succeeded", what),
          replay(),
        );
      } else {
        rec.ev("outcome_ok_right_message");
      }
    }
  }
}

fn fault_case(rec: &mut Rec, ctx: &Ctx, idx: u64, rng: &mut ChaCha20Rng) {
  let t = if idx % 6 == 5 { 1 } else { rng.gen_range(2..=6u32) };
  let ml = if rng.gen_bool(0.3) { rng.gen_range(0..70) } else { *pick(rng, &[1usize, 4, 16, 32, 32, 33, 64]) };
  let rl = if rng.gen_bool(0.3) { rng.gen_range(0..70) } else { *pick(rng, &[1usize, 8, 32, 32, 40]) };
  let a = match make_sharing(rng, t, ml, rl) {
    Some(s) => s,
    None => {
      rec.violation("share-failed", "honest share() failed".into(), json!({"t":t}));
      return;
    }
  };
  rec.evals += 1;
  // positive control: the unfaulted collection recovers
  {
    let shares: Vec<Share> = a.enc.iter().map(|b| Share::from_bytes(b).unwrap()).collect();
    let ok = matches!(recover(&shares), Ok(c) if c.get_message() == a.m);
    rec.control("unfaulted_collection_recovers", ok);
  }
  let (_, f) = AdssShare::decode_with_fields(&a.enc[0]).expect("layout");
  let faults: &[&str] = if ctx.thorough() { &FAULTS_ALL } else { &FAULTS };
  let n = a.enc.len();
  let star_level = idx % 4 == 3;
  // position classes of the faulted share: first / inside the first t / beyond
  let inside = if t >= 2 { rng.gen_range(1..t as usize) } else { 0 };
  let mut classes = vec![("first", 0usize), ("beyond", rng.gen_range(t as usize..n))];
  if t >= 2 {
    classes.push(("inside", inside));
  }
  for (pname, pos) in classes {
    let (orig_parsed, _) = AdssShare::decode_with_fields(&a.enc[pos]).expect("layout");
    // whole-element faults: x and y replaced by structured field values
    for (fname, range) in fields_list(&f) {
      if range.len() != 24 {
        continue;
      }
      let mut one = [0u8; 24];
      one[0] = 1;
      let pm1 = crate::bigfield::to_le24(&(crate::bigfield::p() - num_bigint::BigUint::from(1u32)));
      let mut two128 = [0u8; 24];
      two128[16] = 1;
      for (vname, val) in [("zero", [0u8; 24]), ("one", one), ("p-1", pm1), ("2^128", two128)] {
        let mut coll = a.enc.clone();
        if coll[pos][range.clone()] == val[..] {
          continue;
        }
        coll[pos][range.clone()].copy_from_slice(&val);
        let still_valid_share = t == 1 && fname == "x";
        let what = format!("{}:={}@{}", fname, vname, pname);
        rec.case(&(fname, pname, "element", vname, t));
        rec.evals += 1; // one executed (faulted) collection per case
        judge(rec, &coll, &a.m, pos == 0 && !still_valid_share && ml + rl >= 16, &what, star_level, || {
          json!({"kind":"element-fault","field":fname,"value":vname,"share_position":pos,"t":t,
                 "collection_hex": coll.iter().map(|b| hex(b)).collect::<Vec<_>>(), "expected_message": hex(&a.m)})
        });
      }
    }
    // value-level faults of the 4-byte fields (threshold and the three length prefixes)
    for (fname, range) in fields_list(&f) {
      if range.len() != 4 || !(fname == "threshold" || fname.ends_with("_len")) {
        continue;
      }
      let cur = u32::from_le_bytes(a.enc[pos][range.clone()].try_into().unwrap());
      let mut vals: Vec<u32> = vec![0, 1, 2, 3, cur.wrapping_sub(1), cur + 1, cur + 2, 24, 48, 255, 256, 65536 + cur, 1 << 31, u32::MAX];
      vals.sort();
      vals.dedup();
      for v in vals {
        if v == cur {
          continue;
        }
        let mut coll = a.enc.clone();
        coll[pos][range.clone()].copy_from_slice(&v.to_le_bytes());
        let value_changed = match AdssShare::decode(&coll[pos]) {
          Some(p) => p != orig_parsed,
          None => true,
        };
        let what = format!("{}:=value@{}", fname, pname);
        rec.case(&(fname, pname, "value", v, t));
        rec.evals += 1; // one executed (faulted) collection per case
        judge(rec, &coll, &a.m, pos == 0 && value_changed && ml + rl >= 16, &what, star_level, || {
          json!({"kind":"field-value-fault","field":fname,"new_value":v,"old_value":cur,"share_position":pos,"t":t,
                 "collection_hex": coll.iter().map(|b| hex(b)).collect::<Vec<_>>(), "expected_message": hex(&a.m)})
        });
      }
    }
    for (fname, range) in fields_list(&f) {
      for off in range.clone() {
        for fault in faults {
          let mut coll = a.enc.clone();
          let old = coll[pos][off];
          let new = apply(old, fault);
          if new == old {
            continue;
          }
          coll[pos][off] = new;
          // did the *value* of the faulted share change (as far as the layout can tell)?
          let value_changed = match AdssShare::decode(&coll[pos]) {
            Some(p) => p != orig_parsed,
            None => true,
          };
          // with threshold 1 the polynomial is constant: (x', y) is another
          // valid share of the same sharing, not an alteration of it
          let still_valid_share = t == 1 && fname == "x";
          // soundness rule 2: with fewer than 16 authenticated bytes (|M|+|R|) a wrong key
          // decrypts to the same (M, R) with non-negligible probability (2^-16 for 1+1
          // bytes), and the MAC then verifies legitimately: not asserted against chance
          let must_fail = pos == 0 && value_changed && !still_valid_share && ml + rl >= 16;
          let what = format!("{}@{}", fname, pname);
          rec.case(&(fname, pname, *fault, off - range.start, t));
          rec.evals += 1; // one executed (faulted) collection per case
          judge(rec, &coll, &a.m, must_fail, &what, star_level, || {
            json!({"kind":"field-fault","field":fname,"byte_offset":off,"fault":fault,"share_position":pos,"t":t,
                   "collection_hex": coll.iter().map(|b| hex(b)).collect::<Vec<_>>(), "expected_message": hex(&a.m)})
          });
        }
      }
    }
  }
  if idx < 1 {
    rec.sample(json!({"t": t, "message_len": ml, "coins_len": rl, "encoded_share": hex(&a.enc[0]),
                      "fields": fields_list(&f).iter().map(|(n, r)| json!([n, r.start, r.end])).collect::<Vec<_>>()}));
  }
}

fn mixture_case(rec: &mut Rec, _ctx: &Ctx, idx: u64, rng: &mut ChaCha20Rng) {
  let k = rng.gen_range(2..=3);
  let mut sh: Vec<Sharing> = Vec::new();
  for i in 0..k {
    // distinct (message, coins, threshold); sometimes equal thresholds, sometimes equal lengths
    let t = if i > 0 && rng.gen_bool(0.4) { sh[0].t } else { rng.gen_range(2..=6) };
    let ml = if rng.gen_bool(0.6) { 32 } else { rng.gen_range(1..80) };
    match make_sharing(rng, t, ml, 32) {
      Some(s) => sh.push(s),
      None => return,
    }
  }
  rec.evals += 1;
  for round in 0..12 {
    // a collection drawn from the sharings in random order, with repeats
    let len = rng.gen_range(1..=14);
    let mut coll: Vec<(usize, usize)> = Vec::new();
    for _ in 0..len {
      let s = rng.gen_range(0..k);
      coll.push((s, rng.gen_range(0..sh[s].enc.len())));
    }
    if round % 3 == 0 {
      // enough of sharing 0 up front, foreign shares behind / interleaved
      let mut front: Vec<(usize, usize)> = (0..sh[0].t as usize).map(|i| (0usize, i)).collect();
      front.extend(coll.clone());
      coll = front;
      if round % 2 == 0 {
        let first = coll[0];
        coll[1..].shuffle(rng);
        coll[0] = first;
      }
    }
    let bytes: Vec<Vec<u8>> = coll.iter().map(|(s, i)| sh[*s].enc[*i].clone()).collect();
    let first = coll[0].0;
    let ts: Vec<u32> = sh.iter().map(|s| s.t).collect();
    rec.case(&("mix", coll.iter().map(|c| c.0).collect::<Vec<_>>(), ts.clone()));
    rec.evals += 1; // one executed (faulted) collection per case
    judge(rec, &bytes, &sh[first].m, false, "mixture", idx % 2 == 0, || {
      json!({"kind":"mixture","collection":coll.iter().map(|(s,i)| json!([s,i])).collect::<Vec<_>>(),"thresholds":ts,
             "collection_hex": bytes.iter().map(|b| hex(b)).collect::<Vec<_>>(), "expected_message": hex(&sh[first].m)})
    });
    // a first share of sharing 0 whose point is a structured value, followed by enough shares of sharing 1
    if round % 4 == 2 {
      let (pa, _) = AdssShare::decode_with_fields(&sh[0].enc[0]).unwrap();
      let mut one = [0u8; 24];
      one[0] = 1;
      for (vname, val) in [("zero", [0u8; 24]), ("one", one)] {
        let mut x = pa.clone();
        x.s.x = val;
        let mut bytes: Vec<Vec<u8>> = vec![x.encode()];
        bytes.extend(sh[1].enc.iter().cloned());
        rec.case(&("first-x-structured", vname));
        rec.evals += 1; // one executed (faulted) collection per case
        judge(rec, &bytes, &sh[0].m, false, &format!("first-share-x:={}+other-sharing", vname), false, || {
          json!({"kind":"first-x-structured","value":vname,"collection_hex": bytes.iter().map(|b| hex(b)).collect::<Vec<_>>(), "expected_message": hex(&sh[0].m)})
        });
      }
    }
    // cross-grafting: the first share of sharing A carrying C/D/J/threshold of sharing B
    if round % 4 == 1 {
      let (pa, _) = AdssShare::decode_with_fields(&sh[0].enc[0]).unwrap();
      let (pb, _) = AdssShare::decode_with_fields(&sh[1].enc[0]).unwrap();
      for g in 0..4 {
        let mut x = pa.clone();
        match g {
          0 => x.c = pb.c.clone(),
          1 => x.d = pb.d.clone(),
          2 => x.j = pb.j,
          _ => x.t = pb.t,
        }
        if x == pa {
          continue;
        }
        let mut bytes: Vec<Vec<u8>> = vec![x.encode()];
        bytes.extend(sh[0].enc[1..].iter().cloned());
        rec.case(&("graft", g));
        rec.evals += 1; // one executed (faulted) collection per case
        judge(rec, &bytes, &sh[0].m, true, &format!("graft{}", g), false, || {
          json!({"kind":"graft","field":g,"collection_hex": bytes.iter().map(|b| hex(b)).collect::<Vec<_>>(), "expected_message": hex(&sh[0].m)})
        });
      }
    }
  }
  if idx < 1 {
    rec.sample(json!({"mixture_of": sh.iter().map(|s| json!({"t": s.t, "message_len": s.m.len()})).collect::<Vec<_>>()}));
  }
}

fn flood_case(rec: &mut Rec, _ctx: &Ctx, idx: u64, rng: &mut ChaCha20Rng) {
  let (a, b) = match (make_sharing(rng, 3, 32, 32), make_sharing(rng, 3, 32, 32)) {
    (Some(a), Some(b)) => (a, b),
    _ => return,
  };
  let flood = [65_535usize, 65_536, 65_537, 70_000, 131_073][(idx % 5) as usize];
  rec.evals += 1;
  rec.case(&("flood", flood, idx % 2));
  let mut first = a.enc[0].clone();
  if idx % 2 == 0 {
    // altered authentication tag on the ciphertext-supplying share
    let l = first.len();
    first[l - 1] ^= 1;
  }
  let mut coll: Vec<Vec<u8>> = Vec::with_capacity(flood + 4);
  for _ in 0..flood {
    coll.push(first.clone());
  }
  coll.extend(b.enc.iter().cloned());
  judge(rec, &coll, &a.m, false, &format!("first-share-flood:{}", flood), idx % 3 == 0, || {
    json!({"kind":"flood","first_share":hex(&first),"repeats":flood,"then":"all shares of another sharing","expected_message": hex(&a.m)})
  });
}

pub fn run(ctx: &Ctx) -> Rec {
  let mut rec = par_run(ctx, "faults", ctx.n(240, 6000), |rec, i, rng| fault_case(rec, ctx, i, rng));
  let r2 = par_run(ctx, "mixtures", ctx.n(4000, 120_000), |rec, i, rng| mixture_case(rec, ctx, i, rng));
  rec.merge(r2);
  rec.merge(par_run(ctx, "flood", ctx.n(5, 30), |rec, i, rng| flood_case(rec, ctx, i, rng)));
  rec
}
