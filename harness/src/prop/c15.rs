//! C15 — PPOPRF public keys, proofs, points and evaluations survive
//! serialisation; size limits; malformed bytes judged against an independent
//! model of the pinned bincode layout.

use crate::common::*;
use curve25519_dalek::scalar::Scalar;
use ppoprf::ppoprf::{Client, Evaluation, Point, ProofDLEQ, Server, ServerPublicKey, MAX_SERIALIZED_PK_SIZE, MAX_SERIALIZED_PROOF_SIZE};
use rand::seq::SliceRandom;
use rand::Rng;
use rand_chacha::ChaCha20Rng;
use serde_json::json;
use std::collections::BTreeMap;

/// independent model of the pinned layout: base[32] | u64 n | n x (u8, [32]).
/// Returns the (base, map) it decodes to, or None. bincode's default options
/// ignore trailing bytes; duplicate tags: the last one wins.
fn model_pk(b: &[u8]) -> Option<([u8; 32], BTreeMap<u8, [u8; 32]>)> {
  if b.len() > 16384 || b.len() < 40 {
    return None;
  }
  let base: [u8; 32] = b[..32].try_into().ok()?;
  let n = u64::from_le_bytes(b[32..40].try_into().ok()?);
  let mut map = BTreeMap::new();
  let mut off = 40usize;
  for _ in 0..n {
    if off + 33 > b.len() {
      return None;
    }
    map.insert(b[off], b[off + 1..off + 33].try_into().ok()?);
    off += 33;
  }
  Some((base, map))
}

fn model_pk_encode(base: &[u8; 32], map: &BTreeMap<u8, [u8; 32]>) -> Vec<u8> {
  let mut v = base.to_vec();
  v.extend_from_slice(&(map.len() as u64).to_le_bytes());
  for (k, p) in map {
    v.push(*k);
    v.extend_from_slice(p);
  }
  v
}

/// c[32] | s[32], both canonical scalars; trailing bytes within the limit ignored
fn model_proof(b: &[u8]) -> Option<[u8; 64]> {
  if b.len() > 64 || b.len() < 64 {
    return None;
  }
  let c: [u8; 32] = b[..32].try_into().ok()?;
  let s: [u8; 32] = b[32..64].try_into().ok()?;
  Option::<Scalar>::from(Scalar::from_canonical_bytes(c))?;
  Option::<Scalar>::from(Scalar::from_canonical_bytes(s))?;
  let mut o = [0u8; 64];
  o.copy_from_slice(&b[..64]);
  Some(o)
}

fn pk_case(rec: &mut Rec, ctx: &Ctx, idx: u64, rng: &mut ChaCha20Rng) {
  let sizes_quick = [0usize, 1, 2, 8, 255, 256];
  let n = if ctx.thorough() { (idx % 257) as usize } else { sizes_quick[(idx % 6) as usize] };
  let mut all: Vec<u8> = (0..=255u8).collect();
  all.shuffle(rng);
  let tags: Vec<u8> = all[..n].to_vec();
  let server = match Server::new(tags.clone()) {
    Ok(s) => s,
    Err(e) => {
      rec.violation("server-new-failed", format!("{:?}", e), json!({"tags": n}));
      return;
    }
  };
  rec.evals += 1;
  rec.case(&("pk", n, idx));
  let pk = server.get_public_key();
  let b = match pk.serialize_to_bincode() {
    Ok(b) => b,
    Err(e) => {
      rec.violation("pk-serialize-failed", format!("{:?}", e), json!({"tags": n}));
      return;
    }
  };
  rec.ev("pk_roundtrips");
  let want_len = 40 + 33 * n;
  if b.len() != want_len {
    rec.violation("pk-layout", format!("public key with {} tags serialises to {} bytes, layout says {}", n, b.len(), want_len), json!({"pk": hex_short(&b)}));
  }
  let back = match ServerPublicKey::load_from_bincode(&b) {
    Ok(p) => p,
    Err(e) => {
      rec.violation("pk-roundtrip", format!("a serialised public key with {} tags ({} bytes) does not load: {:?}", n, b.len(), e), json!({"pk": hex_short(&b)}));
      return;
    }
  };
  if back != pk || back.serialize_to_bincode().ok().as_ref() != Some(&b) {
    rec.violation("pk-roundtrip", "restored public key differs from the original".into(), json!({"pk": hex_short(&b)}));
    return;
  }
  // interchangeable in verification
  if let Some(&tag) = tags.first() {
    let input = rand_bytes_in(rng, 0..30);
    let (bp, _) = Client::blind(&input);
    // requests are arbitrary points: now and then the neutral element or the base point
    let bp = match idx % 4 {
      1 => Point::from(&[0u8; 32][..]),
      3 => Point::from(&curve25519_dalek::constants::RISTRETTO_BASEPOINT_COMPRESSED.to_bytes()[..]),
      _ => bp,
    };
    if let Ok(ev) = server.eval(&bp, tag, true) {
      rec.ev("interchangeability_checks");
      let a = Client::verify(&pk, &bp, &ev, tag);
      let c = Client::verify(&back, &bp, &ev, tag);
      if !(a && c) {
        rec.violation("pk-not-interchangeable", format!("honest evaluation verifies with original: {}, with restored key: {}", a, c), json!({"pk": hex_short(&b)}));
      }
      // a tampered one is rejected by both
      let (bp2, _) = Client::blind(b"another request");
      let a2 = Client::verify(&pk, &bp2, &ev, tag);
      let c2 = Client::verify(&back, &bp2, &ev, tag);
      if a2 || c2 {
        rec.violation("tampered-accepted", "an evaluation verifies against a different input point".into(), json!({}));
      }
      // proof: 64-byte bincode -> load -> same bytes, still verifies
      let pr = ev.proof.as_ref().unwrap();
      let pb = pr.serialize_to_bincode().unwrap_or_default();
      rec.ev("proof_roundtrips");
      if pb.len() != 64 {
        rec.violation("proof-layout", format!("proof serialises to {} bytes, not 64", pb.len()), json!({"proof": hex(&pb)}));
      }
      match ProofDLEQ::load_from_bincode(&pb) {
        Ok(p2) => {
          if p2.serialize_to_bincode().ok().as_ref() != Some(&pb) {
            rec.violation("proof-roundtrip", "restored proof re-serialises differently".into(), json!({"proof": hex(&pb)}));
          }
          let ev2 = Evaluation { output: ev.output.clone(), proof: Some(p2) };
          if !Client::verify(&back, &bp, &ev2, tag) {
            rec.violation("proof-not-interchangeable", "restored proof does not verify".into(), json!({"proof": hex(&pb)}));
          }
        }
        Err(e) => rec.violation("proof-roundtrip", format!("serialised proof does not load: {:?}", e), json!({"proof": hex(&pb)})),
      }
      // Evaluation (with and without proof) and Point through serde_json, both paths
      for with_proof in [true, false] {
        let e0 = if with_proof { Evaluation { output: ev.output.clone(), proof: ProofDLEQ::load_from_bincode(&pb).ok() } } else { Evaluation { output: ev.output.clone(), proof: None } };
        let s = serde_json::to_string(&e0).unwrap_or_default();
        let v = serde_json::to_vec(&e0).unwrap_or_default();
        rec.ev("json_roundtrips");
        let r1: Result<Evaluation, _> = serde_json::from_str(&s);
        let r2: Result<Evaluation, _> = serde_json::from_slice(&v);
        for (path, r) in [("from_str", r1), ("from_slice", r2)] {
          match r {
            Ok(e1) => {
              let same = e1.output == e0.output
                && e1.proof.is_some() == e0.proof.is_some()
                && e1.proof.as_ref().map(|p| p.serialize_to_bincode().unwrap_or_default()) == e0.proof.as_ref().map(|p| p.serialize_to_bincode().unwrap_or_default());
              if !same {
                rec.violation("evaluation-json-roundtrip", format!("Evaluation restored through serde_json::{} differs (proof present: {} -> {})", path, e0.proof.is_some(), e1.proof.is_some()), json!({"json": s}));
              } else if with_proof && !Client::verify(&back, &bp, &e1, tag) {
                rec.violation("evaluation-not-interchangeable", "restored evaluation does not verify".into(), json!({"json": s}));
              }
            }
            Err(er) => rec.violation("evaluation-json-roundtrip", format!("serde_json::{} failed on the crate's own output: {}", path, er), json!({"json": s})),
          }
        }
      }
      // the same JSON value re-emitted by another library: members in another order
      {
        let v: serde_json::Value = serde_json::to_value(&ev).unwrap_or_default();
        let out_s = serde_json::to_string(&v["output"]).unwrap_or_default();
        let c_s = serde_json::to_string(&v["proof"]["c"]).unwrap_or_default();
        let s_s = serde_json::to_string(&v["proof"]["s"]).unwrap_or_default();
        for js in [
          format!("{{\"proof\":{{\"s\":{},\"c\":{}}},\"output\":{}}}", s_s, c_s, out_s),
          format!("{{\"output\":{},\"proof\":{{\"s\":{},\"c\":{}}}}}", out_s, s_s, c_s),
          format!("{{ \"proof\" : {{ \"c\" : {} , \"s\" : {} }} ,\n \"output\" : {} }}", c_s, s_s, out_s),
        ] {
          rec.ev("json_reordered_members");
          match serde_json::from_str::<Evaluation>(&js) {
            Ok(e1) => {
              let same = e1.output == ev.output && e1.proof.as_ref().map(|p| p.serialize_to_bincode().unwrap_or_default()) == Some(pb.clone());
              if !same || !Client::verify(&back, &bp, &e1, tag) {
                rec.violation("evaluation-json-roundtrip:member-order", "an Evaluation whose JSON members come in another order restores to a different value / does not verify".into(), json!({"json": js}));
              }
            }
            Err(er) => rec.violation("evaluation-json-roundtrip:member-order", format!("reordered JSON rejected: {}", er), json!({"json": js})),
          }
        }
      }
      let ps = serde_json::to_string(&bp).unwrap_or_default();
      match serde_json::from_str::<Point>(&ps) {
        Ok(p2) if p2 == bp => {}
        other => rec.violation("point-json-roundtrip", format!("Point does not survive JSON: {:?}", other.map(|p| hex(p.as_bytes())).map_err(|e| e.to_string())), json!({"json": ps})),
      }
      match serde_json::from_slice::<Point>(&serde_json::to_vec(&bp).unwrap_or_default()) {
        Ok(p2) if p2 == bp => {}
        _ => rec.violation("point-json-roundtrip", "Point does not survive JSON (from_slice)".into(), json!({"json": ps})),
      }
    }
  }

  // ---- malformed bytes against the layout model
  let mut inputs: Vec<(String, Vec<u8>)> = Vec::new();
  // every strict prefix (sampled for large keys, always around entry boundaries)
  let mut cuts: Vec<usize> = if b.len() <= 400 { (0..b.len()).collect() } else { (0..200).map(|_| rng.gen_range(0..b.len())).collect() };
  cuts.extend([0, 1, 31, 32, 33, 39, 40, 41, 72, 73, 74].iter().filter(|c| **c < b.len()));
  cuts.push(b.len() - 1);
  for c in cuts {
    inputs.push((format!("prefix:{}", c), b[..c].to_vec()));
  }
  // map length larger / smaller than the entries present
  for d in [1i64, 2, 255, 1 << 20, -1, -2] {
    let nn = n as i64 + d;
    if nn >= 0 {
      let mut x = b.clone();
      x[32..40].copy_from_slice(&(nn as u64).to_le_bytes());
      inputs.push((format!("maplen:{:+}", d), x));
    }
  }
  let mut x = b.clone();
  x[32..40].copy_from_slice(&u64::MAX.to_le_bytes());
  inputs.push(("maplen:max".into(), x));
  // trailing bytes within the limit; at the limit; beyond
  for extra in [1usize, 33, 100] {
    let mut x = b.clone();
    x.extend(rand_bytes(rng, extra));
    inputs.push((format!("trailing:{}", extra), x));
  }
  for total in [MAX_SERIALIZED_PK_SIZE - 1, MAX_SERIALIZED_PK_SIZE, MAX_SERIALIZED_PK_SIZE + 1, MAX_SERIALIZED_PK_SIZE + 64, MAX_SERIALIZED_PK_SIZE * 10] {
    if total >= b.len() {
      let mut x = b.clone();
      x.resize(total, 0x62);
      inputs.push((format!("padded-to:{}", total), x));
    }
  }
  // duplicate / unsorted tags
  if n >= 2 {
    let mut x = b.clone();
    x[40 + 33] = x[40];
    inputs.push(("duplicate-tag".into(), x));
    let mut y = b.clone();
    let (e0, e1) = (b[40..73].to_vec(), b[73..106].to_vec());
    y[40..73].copy_from_slice(&e1);
    y[73..106].copy_from_slice(&e0);
    inputs.push(("unsorted-tags".into(), y));
  }
  for (desc, inp) in inputs {
    rec.evals += 1;
    rec.ev("pk_malformed_inputs");
    if rec.counters.get("pk_malformed_inputs").cloned().unwrap_or(0) % 16 == 0 {
      // ... and a refused public key does not disturb loading the honest one afterwards
      let _ = quiet(rec, || ServerPublicKey::load_from_bincode(&inp).is_ok());
      if ServerPublicKey::load_from_bincode(&b).ok().as_ref() != Some(&pk) {
        rec.violation("pk-valid-rejected:after-other-input", format!("the honest key failed to load after the input {}", desc), json!({"input": hex_short(&inp)}));
        return;
      }
    }
    rec.case(&("pkbytes", h64(&[&inp])));
    let real = quiet(rec, || ServerPublicKey::load_from_bincode(&inp).ok().map(|p| p.serialize_to_bincode().unwrap_or_default()));
    let model = model_pk(&inp).map(|(ba, m)| model_pk_encode(&ba, &m));
    match (real, model) {
      (Some(None), None) => rec.ev("pk_both_reject"),
      (Some(Some(r)), Some(m)) => {
        if r != m {
          rec.violation(&format!("pk-partial-value:{}", desc.split(':').next().unwrap()), format!("load_from_bincode({}) yields a value different from what the layout denotes", desc), json!({"input": hex_short(&inp), "loaded": hex_short(&r), "model": hex_short(&m)}));
        } else {
          rec.ev("pk_both_accept");
        }
      }
      (Some(Some(r)), None) => rec.violation(
        &format!("pk-malformed-accepted:{}", desc.split(':').next().unwrap()),
        format!("load_from_bincode accepted bytes that do not decode under the layout / exceed the size limit ({}, {} bytes)", desc, inp.len()),
        json!({"input": hex_short(&inp), "loaded": hex_short(&r)}),
      ),
      // a key can only be an "original" if all its points encode group elements; a loader
      // that also refuses keys holding 32 bytes that are no element is within the statement
      (Some(None), Some(_)) => {
        // ... and so is one that refuses non-canonical forms of a key (trailing bytes, padding,
        // repeated or unsorted tags): only the exact serialisation of a key must load
        let canonical = model_pk(&inp).map(|(b, mp)| model_pk_encode(&b, &mp) == inp).unwrap_or(false);
        if !canonical {
          rec.ev("pk_non_canonical_rejected")
        } else if model_pk(&inp).map(|(b, mp)| is_element(&b) && mp.values().all(|v| is_element(v))).unwrap_or(false) {
          rec.violation(
            &format!("pk-valid-rejected:{}", desc.split(':').next().unwrap()),
            format!("load_from_bincode rejected decodable bytes within the size limit ({}, {} bytes)", desc, inp.len()),
            json!({"input": hex_short(&inp)}),
          )
        } else {
          rec.ev("pk_non_element_rejected")
        }
      }
      (None, _) => {}
    }
  }
  if idx < 1 {
    rec.sample(json!({"tags": n, "pk_len": b.len(), "pk_head": hex(&b[..48.min(b.len())])}));
  }
}

fn proof_case(rec: &mut Rec, _ctx: &Ctx, idx: u64, rng: &mut ChaCha20Rng) {
  rec.evals += 1;
  let server = Server::new(vec![3]).expect("server");
  let (bp, _) = Client::blind(&rand_bytes_in(rng, 0..20));
  let ev = server.eval(&bp, 3, true).expect("eval");
  let pb = ev.proof.as_ref().unwrap().serialize_to_bincode().unwrap_or_default();
  let mut inputs: Vec<(String, Vec<u8>)> = Vec::new();
  for c in 0..pb.len() {
    inputs.push((format!("prefix:{}", c), pb[..c].to_vec()));
  }
  for total in [MAX_SERIALIZED_PROOF_SIZE, MAX_SERIALIZED_PROOF_SIZE + 1, MAX_SERIALIZED_PROOF_SIZE + 2, MAX_SERIALIZED_PROOF_SIZE + 64, MAX_SERIALIZED_PROOF_SIZE * 10] {
    let mut x = pb.clone();
    x.resize(total, 0);
    inputs.push((format!("padded-to:{}", total), x));
  }
  // non-canonical scalars: l, l+1, 2^255-1, all-ff, high bit set
  let l: [u8; 32] = [0xed, 0xd3, 0xf5, 0x5c, 0x1a, 0x63, 0x12, 0x58, 0xd6, 0x9c, 0xf7, 0xa2, 0xde, 0xf9, 0xde, 0x14, 0, 0, 0, 0, 0, 0, 0, 0, 0, 0, 0, 0, 0, 0, 0, 0x10];
  let mut l1 = l;
  l1[0] += 1;
  let mut lm1 = l;
  lm1[0] -= 1;
  for (name, sc) in [("l", l), ("l+1", l1), ("l-1", lm1), ("ff", [0xff; 32]), ("2^255-1", { let mut x = [0xff; 32]; x[31] = 0x7f; x })] {
    for which in 0..2 {
      let mut x = pb.clone();
      x[32 * which..32 * which + 32].copy_from_slice(&sc);
      inputs.push((format!("scalar{}:={}", which, name), x));
    }
  }
  for _ in 0..40 {
    let mut x = pb.clone();
    let o = rng.gen_range(0..64);
    x[o] ^= 1 << rng.gen_range(0..8);
    inputs.push((format!("bitflip:{}", o), x));
  }
  for _ in 0..20 {
    inputs.push(("uniform".into(), rand_bytes_in(rng, 0..80)));
  }
  for (desc, inp) in inputs {
    rec.evals += 1;
    rec.ev("proof_malformed_inputs");
    rec.case(&("proofbytes", h64(&[&inp])));
    let real = quiet(rec, || ProofDLEQ::load_from_bincode(&inp).ok().map(|p| p.serialize_to_bincode().unwrap_or_default()));
    let model = model_proof(&inp).map(|m| m.to_vec());
    match (real, model) {
      (Some(None), None) => rec.ev("proof_both_reject"),
      (Some(Some(r)), Some(m)) if r == m => rec.ev("proof_both_accept"),
      (Some(Some(r)), m) => rec.violation(
        &format!("proof-malformed-accepted:{}", desc.split(':').next().unwrap()),
        format!("ProofDLEQ::load_from_bincode accepted {} ({} bytes) as {}, the layout model says {:?}", desc, inp.len(), hex_short(&r), m.map(|x| hex_short(&x))),
        json!({"input": hex(&inp)}),
      ),
      (Some(None), Some(_)) => rec.violation(&format!("proof-valid-rejected:{}", desc.split(':').next().unwrap()), format!("a decodable proof was rejected ({})", desc), json!({"input": hex(&inp)})),
      (None, _) => {}
    }
  }
  if idx < 1 {
    rec.sample(json!({"proof": hex(&pb)}));
  }
}

/// JSON evaluations whose base64 `output` field is varied: accepted iff the
/// string is canonical standard base64 of exactly 32 bytes, and then the point is
/// exactly those bytes (never a zero-filled or truncated value)
/// do these 32 bytes encode a group element?
fn is_element(b: &[u8]) -> bool {
  b.len() == 32 && curve25519_dalek::ristretto::CompressedRistretto::from_slice(b).ok().and_then(|c| c.decompress()).is_some()
}

fn json_case(rec: &mut Rec, _ctx: &Ctx, idx: u64, rng: &mut ChaCha20Rng) {
  use base64::{engine::Engine as _, prelude::BASE64_STANDARD};
  // (an honest blinded request: always the encoding of a group element)
  let good_bytes = Client::blind(&rand_bytes(rng, 8)).0.as_bytes().to_vec();
  let good_js = format!("{{\"output\":\"{}\",\"proof\":null}}", BASE64_STANDARD.encode(&good_bytes));
  for (desc, s) in crate::hostile::b64_output_strings(rng) {
    let js = format!("{{\"output\":{},\"proof\":null}}", serde_json::to_string(&s).unwrap_or_default());
    rec.evals += 1;
    rec.ev("json_malformed_inputs");
    rec.case(&("json", s.clone()));
    let model: Option<Vec<u8>> = BASE64_STANDARD.decode(&s).ok().filter(|v| v.len() == 32);
    let real = quiet(rec, || serde_json::from_str::<Evaluation>(&js).ok().map(|e| e.output.as_bytes().to_vec()));
    let kind = desc.split(':').nth(1).unwrap_or("").split(|c: char| c.is_ascii_digit()).next().unwrap_or("").to_string();
    match (real, model) {
      (Some(None), None) => rec.ev("json_both_reject"),
      (Some(Some(r)), Some(m)) if r == m => rec.ev("json_both_accept"),
      (Some(Some(r)), m) => rec.violation(
        &format!("json-partial-value:{}", if m.is_some() { "differs" } else { "malformed-accepted" }),
        format!("an Evaluation whose output field is {:?} ({}) was accepted as the point {}; the field {}", s, desc, hex(&r), if m.is_some() { "denotes other bytes" } else { "does not decode to 32 bytes" }),
        json!({"json": js, "kind": kind}),
      ),
      // only encodings of actual group elements can be "originals"; a loader that also
      // refuses 32 bytes that are no element is within the statement
      (Some(None), Some(m)) => {
        if is_element(&m) {
          rec.violation("json-valid-rejected", format!("a well-formed evaluation was rejected ({})", desc), json!({"json": js}))
        } else {
          rec.ev("json_non_element_rejected")
        }
      }
      (None, _) => {}
    }
    // whatever happened to that input, the next well-formed evaluation on this
    // thread must restore to exactly its own value
    rec.ev("json_valid_after_other_input");
    match quiet(rec, || serde_json::from_str::<Evaluation>(&good_js).ok().map(|e| e.output.as_bytes().to_vec())) {
      Some(Some(v)) if v == good_bytes => {}
      Some(other) => {
        rec.violation(
          "json-valid-rejected:after-other-input",
          format!("a well-formed evaluation decoded right after the input {:?} ({}) was {}", s, desc, if other.is_some() { "restored to other bytes" } else { "rejected" }),
          json!({"previous_json": js, "json": good_js}),
        );
        return;
      }
      None => {}
    }
  }
  // structured 32-byte values are points like any other (the type does not validate them)
  for (desc, bytes) in [
    ("all-zero (neutral element)", [0u8; 32]),
    ("base point", curve25519_dalek::constants::RISTRETTO_BASEPOINT_COMPRESSED.to_bytes()),
    ("all-FF", [0xffu8; 32]),
    ("one", { let mut b = [0u8; 32]; b[0] = 1; b }),
    ("top bit", { let mut b = [0u8; 32]; b[31] = 0x80; b }),
  ] {
    let js = format!("{{\"output\":\"{}\",\"proof\":null}}", BASE64_STANDARD.encode(bytes));
    rec.evals += 1;
    rec.ev("json_structured_points");
    rec.case(&("json-structured", desc));
    match quiet(rec, || serde_json::from_str::<Evaluation>(&js).ok().map(|e| e.output.as_bytes().to_vec())) {
      Some(Some(v)) if v == bytes.to_vec() => {}
      Some(None) if !is_element(&bytes) => rec.ev("json_non_element_rejected"),
      Some(other) => rec.violation(
        "json-valid-rejected:structured-point",
        format!("an evaluation whose output is the {} point was {}", desc, if other.is_some() { "restored to other bytes" } else { "rejected" }),
        json!({"json": js}),
      ),
      None => {}
    }
    if !is_element(&bytes) {
      continue;
    }
    let p = Point::from(&bytes[..]);
    let ps = serde_json::to_string(&p).unwrap_or_default();
    match serde_json::from_str::<Point>(&ps) {
      Ok(p2) if p2 == p => {}
      _ => rec.violation("point-json-roundtrip", format!("the {} point does not survive JSON", desc), json!({"json": ps})),
    }
  }
  // a present but malformed proof never yields an evaluation with a proof
  for (desc, js) in [
    ("proof-short-c", "{\"output\":\"AAAAAAAAAAAAAAAAAAAAAAAAAAAAAAAAAAAAAAAAAAA=\",\"proof\":{\"c\":[1,2,3],\"s\":[0,0,0,0,0,0,0,0,0,0,0,0,0,0,0,0,0,0,0,0,0,0,0,0,0,0,0,0,0,0,0,0]}}".to_string()),
    ("proof-noncanonical-s", format!("{{\"output\":\"AAAAAAAAAAAAAAAAAAAAAAAAAAAAAAAAAAAAAAAAAAA=\",\"proof\":{{\"c\":[{}],\"s\":[{}]}}}}", vec!["0"; 32].join(","), vec!["255"; 32].join(","))),
    ("proof-missing-s", "{\"output\":\"AAAAAAAAAAAAAAAAAAAAAAAAAAAAAAAAAAAAAAAAAAA=\",\"proof\":{\"c\":[0,0,0,0,0,0,0,0,0,0,0,0,0,0,0,0,0,0,0,0,0,0,0,0,0,0,0,0,0,0,0,0]}}".to_string()),
  ] {
    rec.evals += 1;
    rec.ev("json_malformed_inputs");
    rec.case(&("json-proof", desc, idx));
    if let Some(Ok(_)) = quiet(rec, || serde_json::from_str::<Evaluation>(&js).map(|_| ())) {
      rec.violation("json-malformed-proof-accepted", format!("an Evaluation with a malformed proof was accepted ({})", desc), json!({"json": js}));
    }
  }
}

pub fn run(ctx: &Ctx) -> Rec {
  let mut rec = par_run(ctx, "pk", ctx.n(96, 20560), |rec, i, rng| pk_case(rec, ctx, i, rng));
  rec.merge(par_run(ctx, "proof", ctx.n(200, 400_000), |rec, i, rng| proof_case(rec, ctx, i, rng)));
  rec.merge(par_run(ctx, "json", ctx.n(64, 20_000), |rec, i, rng| json_case(rec, ctx, i, rng)));
  rec
}
