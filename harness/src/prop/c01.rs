//! C01 — threshold recovery reveals measurement and aux.
//! Oracle: send/reveal ledger; key obtained only through public API; every
//! report decrypted and parsed by the independent framing parser.

use crate::common::*;
use crate::gen::*;
use crate::layout;
use rand::Rng;
use serde_json::{json, Value};
use sta_rs::{derive_ske_key, share_recover, Message, Share};
use std::collections::{HashMap, HashSet};

fn replay_of(sc: &Scenario, reps: &[ClientReport], sel: &[usize], idx: u64) -> Value {
  let small: usize = reps.iter().map(|r| r.bytes.len()).sum();
  json!({
    "scenario_index": idx,
    "measurement": hex_short(&sc.measurement),
    "epoch": hex(&sc.epoch),
    "threshold": sc.t,
    "randomness_source": format!("{:?}", sc.src),
    "n_reports": reps.len(),
    "selection": sel,
    "aux": reps.iter().map(|r| r.aux.as_ref().map(|a| hex_short(a))).collect::<Vec<_>>(),
    "reports_hex": if small <= 16384 { reps.iter().map(|r| hex(&r.bytes)).collect::<Vec<_>>() } else { vec![] },
  })
}

/// decrypt every report with the key derived from the recovered seed and
/// compare with the ledger
fn reveal_all(
  rec: &mut Rec,
  sc: &Scenario,
  reps: &[ClientReport],
  decoded: &[Message],
  seed: &[u8],
  idx: u64,
  sel: &[usize],
) {
  let mut key = vec![0u8; 16];
  derive_ske_key(seed, &sc.epoch, &mut key);
  for (i, m) in decoded.iter().enumerate() {
    rec.ev("decrypt");
    let plain = m.ciphertext.decrypt(&key, "star_encrypt");
    let parsed = layout::parse_payload(&plain);
    let want = (sc.measurement.clone(), reps[i].aux.clone());
    if parsed.as_ref() != Some(&want) {
      rec.violation(
        "reveal-mismatch",
        format!(
          "report {} of scenario {} decrypts to {:?}, client supplied measurement len {} aux {:?}",
          i,
          idx,
          parsed.as_ref().map(|(m, a)| (hex_short(m), a.as_ref().map(|x| hex_short(x)))),
          sc.measurement.len(),
          reps[i].aux.as_ref().map(|x| hex_short(x))
        ),
        replay_of(sc, reps, sel, idx),
      );
      return;
    }
  }
}

pub fn scenario(rec: &mut Rec, ctx: &Ctx, idx: u64, rng: &mut rand_chacha::ChaCha20Rng) {
  let thorough = ctx.thorough();
  let mut sc = Scenario::gen(rng, thorough);
  // a slice of the scenarios is forced small so that exhaustive selection
  // enumeration happens often
  let exhaustive_cap: usize = if thorough { 6 } else { 5 };
  let force_small = idx % 4 == 0;
  if force_small {
    sc.t = rng.gen_range(1..=3);
  }
  // two scenarios of every run sit just beyond the 8-bit threshold boundary
  let large = (1..=5).contains(&idx);
  if large {
    sc.t = [127u32, 128, 129, 256, 257][idx as usize - 1];
    sc.src = RandSrc::Local;
  }
  let t = sc.t as usize;
  let extra = if force_small {
    rng.gen_range(0..=exhaustive_cap.saturating_sub(t).min(t + 1))
  } else {
    rng.gen_range(0..=t.min(10))
  };
  let extra = if large { 2 } else { extra };
  // now and then far more reports than the threshold needs
  let extra = if !large && !force_small && idx % 97 == 5 && t <= 8 { 100 + extra } else { extra };
  let n = t + extra;
  let auxes: Vec<Option<Vec<u8>>> =
    (0..n).map(|_| aux(rng, sc.measurement.len(), thorough)).collect();
  rec.evals += 1;
  let reps = match sc.make_reports(rng, &auxes) {
    Ok(r) => r,
    Err(e) => {
      rec.violation(
        "generate-failed",
        format!("honest report generation failed: {}", e),
        json!({"scenario_index": idx, "threshold": sc.t, "measurement_len": sc.measurement.len(), "src": format!("{:?}", sc.src)}),
      );
      return;
    }
  };
  rec.evn("generate", n as u64);
  // wire crossing
  let mut decoded: Vec<Message> = Vec::with_capacity(n);
  let mut xs: Vec<[u8; 24]> = Vec::with_capacity(n);
  for (i, r) in reps.iter().enumerate() {
    rec.ev("encode_decode");
    match Message::from_bytes(&r.bytes) {
      Some(m) => {
        if m != r.msg {
          rec.violation(
            "wire-roundtrip",
            format!("report {} changed across to_bytes/from_bytes", i),
            replay_of(&sc, &reps, &[], idx),
          );
          return;
        }
        decoded.push(m);
      }
      None => {
        rec.violation(
          "wire-roundtrip",
          format!("honest report {} ({} bytes) rejected by Message::from_bytes", i, r.bytes.len()),
          replay_of(&sc, &reps, &[], idx),
        );
        return;
      }
    }
    match layout::Report::decode(&r.bytes) {
      Some(l) => xs.push(l.share.s.x),
      None => {
        rec.violation(
          "layout",
          format!("honest report {} does not parse under the documented layout", i),
          replay_of(&sc, &reps, &[], idx),
        );
        return;
      }
    }
  }
  let shares: Vec<Share> = decoded.iter().map(|m| m.share.clone()).collect();
  // all clients of one scenario must also agree on the tag
  if decoded.iter().any(|m| m.tag != decoded[0].tag) {
    rec.violation(
      "tag-disagreement",
      "clients of one (measurement, epoch, threshold, randomness) produced different tags".into(),
      replay_of(&sc, &reps, &[], idx),
    );
  }

  let mut revealed_for: HashSet<Vec<u8>> = HashSet::new();
  let mut try_sel = |rec: &mut Rec, sel: &[usize], pat: &str| {
    let distinct: HashSet<&[u8; 24]> = sel.iter().map(|&i| &xs[i]).collect();
    let picked: Vec<Share> = sel.iter().map(|&i| shares[i].clone()).collect();
    rec.ev("select");
    rec.ev("recover");
    let res = share_recover(&picked);
    if distinct.len() < t {
      rec.ev("select_below_t(skipped)");
      return;
    }
    match res {
      Ok(c) => {
        let seed = c.get_message();
        if revealed_for.insert(seed.clone()) {
          reveal_all(rec, &sc, &reps, &decoded, &seed, idx, sel);
        }
        if revealed_for.len() > 1 {
          rec.violation(
            "recover-inconsistent",
            format!("two selections of one scenario recovered different key seeds (pattern {})", pat),
            replay_of(&sc, &reps, sel, idx),
          );
        }
      }
      Err(e) => {
        rec.violation(
          &format!("recover-failed:{}", pat),
          format!(
            "share_recover failed ({}) on a selection with {} distinct shares >= t={} (pattern {}, {} shares handed over)",
            e,
            distinct.len(),
            t,
            pat,
            sel.len()
          ),
          replay_of(&sc, &reps, sel, idx),
        );
      }
    }
  };

  for pat in SEL_PATTERNS.iter() {
    if large && !matches!(pat, SelPattern::Permuted | SelPattern::ExactlyT | SelPattern::DupsFront) {
      continue;
    }
    let sel = selection(rng, n, t, *pat);
    try_sel(rec, &sel, &format!("{:?}", pat));
    rec.case(&(
      sc.t,
      extra.min(3),
      *pat,
      len_class(sc.measurement.len()),
      auxes.iter().map(|a| aux_class(a, sc.measurement.len())).max(),
      sc.src.clone(),
    ));
  }
  if n <= exhaustive_cap {
    // every subset of size >= t in every order
    let mut count = 0u64;
    for mask in 1u32..(1 << n) {
      if (mask.count_ones() as usize) < t {
        continue;
      }
      let items: Vec<usize> = (0..n).filter(|i| mask & (1 << i) != 0).collect();
      for perm in permutations(&items) {
        try_sel(rec, &perm, "exhaustive");
        count += 1;
      }
    }
    rec.evn("exhaustive_selections", count);
    rec.ev("exhaustive_scenarios");
    rec.case(&("exh", sc.t, n));
  }
  if idx < 3 {
    rec.sample(json!({
      "measurement_len": sc.measurement.len(), "epoch_len": sc.epoch.len(), "threshold": sc.t,
      "reports": n, "randomness_source": format!("{:?}", sc.src),
      "aux_lens": auxes.iter().map(|a| a.as_ref().map(|x| x.len() as i64).unwrap_or(-1)).collect::<Vec<_>>(),
      "report_bytes": reps.iter().map(|r| r.bytes.len()).collect::<Vec<_>>(),
    }));
  }
}

pub fn len_class(l: usize) -> u8 {
  match l {
    0 => 0,
    1..=3 => 1,
    4..=157 => 2,
    158..=170 => 3,
    171..=1023 => 4,
    _ => 5,
  }
}

pub fn aux_class(a: &Option<Vec<u8>>, mlen: usize) -> u8 {
  match a {
    None => 0,
    Some(v) if v.is_empty() => 1,
    Some(v) if v.len() == 1 => 2,
    Some(v) => {
      let total = 8 + mlen + v.len();
      if total < RATE - 1 {
        3
      } else if total <= RATE + 1 {
        4
      } else if total <= 2 * RATE + 1 {
        5
      } else {
        6
      }
    }
  }
}

/// every measurement length and every associated-data length 0..=max once, at
/// small thresholds: generate -> encode -> decode -> recover -> decrypt all
fn length_sweep(rec: &mut Rec, _ctx: &Ctx, idx: u64, rng: &mut rand_chacha::ChaCha20Rng) {
  let l = (idx / 2) as usize;
  let (m, auxes): (Vec<u8>, Vec<Option<Vec<u8>>>) = if idx % 2 == 0 {
    (rand_bytes(rng, l), vec![None, Some(vec![]), Some(rand_bytes(rng, 3))])
  } else {
    (rand_bytes(rng, 16), vec![Some(rand_bytes(rng, l)), None, Some(rand_bytes(rng, l))])
  };
  let sc = Scenario { measurement: m, epoch: rand_bytes_in(rng, 0..4), t: rng.gen_range(1..=3), src: RandSrc::Local };
  rec.evals += 1;
  rec.ev("length_sweep_scenarios");
  rec.case(&("len", idx));
  let reps = match sc.make_reports(rng, &auxes) {
    Ok(r) => r,
    Err(e) => {
      rec.violation("generate-failed", e, json!({"length": l}));
      return;
    }
  };
  let decoded: Option<Vec<Message>> = reps.iter().map(|r| Message::from_bytes(&r.bytes)).collect();
  let decoded = match decoded {
    Some(d) => d,
    None => {
      rec.violation("wire-roundtrip", format!("honest report rejected (length sweep, {} bytes)", l), replay_of(&sc, &reps, &[], idx));
      return;
    }
  };
  let shares: Vec<Share> = decoded.iter().map(|m| m.share.clone()).collect();
  rec.ev("recover");
  match share_recover(&shares) {
    Ok(c) => reveal_all(rec, &sc, &reps, &decoded, &c.get_message(), idx, &[0, 1, 2]),
    Err(e) => rec.violation("recover-failed:length-sweep", format!("{} (length {})", e, l), replay_of(&sc, &reps, &[0, 1, 2], idx)),
  }
}

/// one client's report replayed tens of thousands of times BEFORE the other
/// clients' reports arrive
fn replay_flood(rec: &mut Rec, _ctx: &Ctx, idx: u64, rng: &mut rand_chacha::ChaCha20Rng) {
  let t = 3u32;
  let sc = Scenario { measurement: rand_bytes_in(rng, 1..30), epoch: rand_bytes_in(rng, 0..4), t, src: RandSrc::Local };
  let auxes = vec![Some(rand_bytes(rng, 8)), None, Some(rand_bytes(rng, 300))];
  let reps = match sc.make_reports(rng, &auxes) {
    Ok(r) => r,
    Err(e) => {
      rec.violation("generate-failed", e, json!({}));
      return;
    }
  };
  let decoded: Vec<Message> = reps.iter().filter_map(|r| Message::from_bytes(&r.bytes)).collect();
  if decoded.len() != 3 {
    return;
  }
  let flood = [65_535usize, 65_536, 70_000, 131_072][(idx % 4) as usize];
  rec.evals += 1;
  rec.ev("replay_flood_scenarios");
  rec.case(&("flood", flood));
  let mut shares: Vec<Share> = Vec::with_capacity(flood + 2);
  for _ in 0..flood {
    shares.push(decoded[0].share.clone());
  }
  shares.push(decoded[1].share.clone());
  shares.push(decoded[2].share.clone());
  rec.ev("recover");
  match share_recover(&shares) {
    Ok(c) => reveal_all(rec, &sc, &reps, &decoded, &c.get_message(), idx, &[0, 1, 2]),
    Err(e) => rec.violation(
      "recover-failed:replay-flood",
      format!("{} replays of one report followed by {} further distinct reports (t = {}): {}", flood, 2, t, e),
      json!({"flood": flood, "threshold": t, "reports_hex": reps.iter().map(|r| hex(&r.bytes)).collect::<Vec<_>>() }),
    ),
  }
}

/// every threshold 1..=T once: t clients, exactly t reports in shuffled order
fn threshold_sweep(rec: &mut Rec, _ctx: &Ctx, t: u64, rng: &mut rand_chacha::ChaCha20Rng) {
  use rand::seq::SliceRandom;
  let t = t as u32 + 1;
  let sc = Scenario { measurement: rand_bytes_in(rng, 1..40), epoch: rand_bytes_in(rng, 0..6), t, src: RandSrc::Local };
  let auxes: Vec<Option<Vec<u8>>> = (0..t).map(|i| if i % 3 == 0 { None } else { Some(rand_bytes_in(rng, 0..12)) }).collect();
  rec.evals += 1;
  rec.ev("threshold_sweep_scenarios");
  rec.case(&("threshold", t));
  let reps = match sc.make_reports(rng, &auxes) {
    Ok(r) => r,
    Err(e) => {
      rec.violation("generate-failed", e, json!({"threshold": t}));
      return;
    }
  };
  let decoded: Option<Vec<Message>> = reps.iter().map(|r| Message::from_bytes(&r.bytes)).collect();
  let decoded = match decoded {
    Some(d) => d,
    None => {
      rec.violation("wire-roundtrip", format!("honest report rejected (threshold sweep, t = {})", t), json!({"threshold": t}));
      return;
    }
  };
  let mut sel: Vec<usize> = (0..t as usize).collect();
  sel.shuffle(rng);
  let shares: Vec<Share> = sel.iter().map(|&i| decoded[i].share.clone()).collect();
  rec.ev("recover");
  let small = |sel: &[usize]| -> Value { json!({"threshold": t, "measurement": hex(&sc.measurement), "epoch": hex(&sc.epoch), "order_head": sel.iter().take(16).collect::<Vec<_>>() }) };
  match share_recover(&shares) {
    Ok(c) => {
      let probe: Vec<usize> = vec![0, (t as usize) / 2, t as usize - 1];
      reveal_all(rec, &sc, &reps, &decoded, &c.get_message(), t as u64, &probe)
    }
    Err(e) => rec.violation("recover-failed:threshold-sweep", format!("{} (exactly t = {} distinct reports)", e, t), small(&sel)),
  }
}

pub fn run(ctx: &Ctx) -> Rec {
  let n = ctx.n(8000, 120_000);
  let mut rec = par_run(ctx, "scenario", n, |rec, i, rng| scenario(rec, ctx, i, rng));
  let max_len: u64 = if ctx.thorough() { 1200 } else { 420 };
  rec.merge(par_run(ctx, "length-sweep", 2 * (max_len + 1), |rec, i, rng| length_sweep(rec, ctx, i, rng)));
  rec.note("length_sweep_max", json!(max_len));
  rec.merge(par_run(ctx, "replay-flood", ctx.n(4, 16), |rec, i, rng| replay_flood(rec, ctx, i, rng)));
  // every threshold 1..=T once (O(t^2) each)
  // (scaled down in the auxiliary stages: the overflow-checked dev build is an order of magnitude slower)
  let tmax: u64 = (((if ctx.thorough() { 1024 } else { 320 }) as f64) * ctx.scale.min(1.0)).ceil() as u64;
  rec.merge(par_run(ctx, "threshold-sweep", tmax, |rec, i, rng| threshold_sweep(rec, ctx, tmax - 1 - i, rng)));
  rec.note("threshold_sweep_max", json!(tmax));
  let _ = HashMap::<u8, u8>::new();
  rec.note("scenarios", json!(n));
  rec
}
