//! C13 — evaluation proofs: complete, sound against single-component
//! tampering, and never reuse a nonce.

use crate::common::*;
use curve25519_dalek::constants::RISTRETTO_BASEPOINT_POINT as G;
use curve25519_dalek::ristretto::{CompressedRistretto, RistrettoPoint};
use curve25519_dalek::scalar::Scalar;
use curve25519_dalek::traits::Identity;
use ppoprf::ppoprf::{Client, Evaluation, Point, ProofDLEQ, Server, ServerPublicKey};
use rand::Rng;
use rand_chacha::ChaCha20Rng;
use serde_json::json;
use std::collections::HashSet;
use std::sync::Mutex;

fn dec(b: &[u8]) -> Option<RistrettoPoint> {
  CompressedRistretto::from_slice(b).ok()?.decompress()
}
fn enc(p: &RistrettoPoint) -> [u8; 32] {
  p.compress().to_bytes()
}

/// offsets inside the pinned bincode form of a public key:
/// base[32] | u64 n | n x (u8 tag, point[32])
fn pk_entry_offset(pk: &[u8], tag: u8) -> Option<usize> {
  if pk.len() < 40 {
    return None;
  }
  let n = u64::from_le_bytes(pk[32..40].try_into().ok()?) as usize;
  for i in 0..n {
    let o = 40 + 33 * i;
    if o + 33 > pk.len() {
      return None;
    }
    if pk[o] == tag {
      return Some(o + 1);
    }
  }
  None
}

struct Honest {
  pk: Vec<u8>,
  input: [u8; 32],
  output: [u8; 32],
  proof: Vec<u8>, // c | s
  tag: u8,
}

/// neighbour / replacement values for a point
fn point_variants(rng: &mut ChaCha20Rng, orig: &[u8; 32], others: &[[u8; 32]]) -> Vec<(String, [u8; 32])> {
  let mut v: Vec<(String, [u8; 32])> = Vec::new();
  if let Some(p) = dec(orig) {
    v.push(("plusG".into(), enc(&(p + G))));
    v.push(("minusG".into(), enc(&(p - G))));
    v.push(("double".into(), enc(&(p + p))));
    v.push(("neg".into(), enc(&(-p))));
    let k = Scalar::from(rng.gen::<u64>() | 2);
    v.push(("scaled".into(), enc(&(k * p))));
  }
  v.push(("identity".into(), [0u8; 32]));
  v.push(("basepoint".into(), enc(&G)));
  for (i, o) in others.iter().enumerate() {
    v.push((format!("other-honest{}", i), *o));
  }
  v.retain(|(_, b)| b != orig);
  v
}

fn scalar_variants(rng: &mut ChaCha20Rng, orig: &[u8; 32], others: &[[u8; 32]], bits: usize) -> Vec<(String, [u8; 32])> {
  let mut v: Vec<(String, [u8; 32])> = Vec::new();
  if let Some(s) = Option::<Scalar>::from(Scalar::from_canonical_bytes(*orig)) {
    v.push(("plus1".into(), (s + Scalar::ONE).to_bytes()));
    v.push(("minus1".into(), (s - Scalar::ONE).to_bytes()));
    v.push(("neg".into(), (-s).to_bytes()));
    v.push(("double".into(), (s + s).to_bytes()));
  }
  v.push(("zero".into(), [0u8; 32]));
  v.push(("one".into(), Scalar::ONE.to_bytes()));
  let all_bits: Vec<usize> = if bits >= 253 { (0..256).collect() } else { (0..bits).map(|_| rng.gen_range(0..256)).collect() };
  for b in all_bits {
    let mut x = *orig;
    x[b / 8] ^= 1 << (b % 8);
    v.push((format!("bit{}", b), x));
  }
  for (i, o) in others.iter().enumerate() {
    v.push((format!("other-honest{}", i), *o));
  }
  v.retain(|(_, b)| b != orig);
  v
}

fn verify_bytes(pk: &[u8], input: &[u8; 32], output: &[u8; 32], proof: &[u8], tag: u8) -> Option<bool> {
  let pk = ServerPublicKey::load_from_bincode(pk).ok()?;
  let proof = ProofDLEQ::load_from_bincode(proof).ok()?;
  let ev = Evaluation {
    output: Point::from(&output[..]),
    proof: Some(proof),
  };
  Some(Client::verify(&pk, &Point::from(&input[..]), &ev, tag))
}

// ---------------------------------------------------------------------------
// Reference verification procedure (the proof is an interoperable protocol
// message between server and clients: draft-irtf-cfrg-voprf proof verification
// with the crate's Strobe-based hash). The monitor recomputes the challenge
//   c' = H(B, M, Z, t2, t3),  t2 = s*G + c*B,  t3 = s*M + c*Z
// and, when the honest proof does not satisfy it, tries the five transcripts
// with ONE element dropped: a match there shows that the implementation's
// challenge does not bind that element (prover and verifier changed together).
// If nothing matches (labels or hash changed) the monitor has no opinion.

fn strobe_hash64(input: &[u8], label: &str) -> [u8; 64] {
  use strobe_rs::{SecParam, Strobe};
  let mut t = Strobe::new(label.as_bytes(), SecParam::B128);
  t.key(input, false);
  let mut out = [0u8; 64];
  t.meta_ad(&(64u32).to_le_bytes(), false);
  t.prf(&mut out, false);
  out
}

fn hash_to_scalar(input: &[u8], label: &str) -> Scalar {
  Scalar::from_bytes_mod_order_wide(&strobe_hash64(input, label))
}

fn i2osp2(x: usize) -> [u8; 2] {
  (x as u16).to_be_bytes()
}

/// Some(None) = the reference transcript reproduces c; Some(Some(i)) = only the
/// transcript without element i (0=B,1=M,2=Z,3=t2,4=t3) does; None = no opinion
fn reference_challenge(pk_point: &RistrettoPoint, input: &RistrettoPoint, output: &RistrettoPoint, c: &Scalar, s: &Scalar) -> Option<Option<usize>> {
  let ctx = format!("{}-{}-{}", "PPOPRFv1", 0x03, "ristretto255-strobe");
  let mut seed_t = Vec::new();
  seed_t.extend_from_slice(&i2osp2(32));
  seed_t.extend_from_slice(pk_point.compress().as_bytes());
  seed_t.extend_from_slice(&i2osp2(ctx.len()));
  seed_t.extend_from_slice(ctx.as_bytes());
  let seed = strobe_hash64(&seed_t, "Seed");
  let mut comp = Vec::new();
  comp.extend_from_slice(&i2osp2(64));
  comp.extend_from_slice(&seed);
  comp.extend_from_slice(&i2osp2(0));
  comp.extend_from_slice(&i2osp2(32));
  comp.extend_from_slice(output.compress().as_bytes());
  comp.extend_from_slice(&i2osp2(32));
  comp.extend_from_slice(input.compress().as_bytes());
  let d = hash_to_scalar(&comp, "Composite");
  let m = d * output;
  let z = d * input;
  let t2 = s * G + c * pk_point;
  let t3 = s * m + c * z;
  let elems = [*pk_point, m, z, t2, t3];
  let challenge = |skip: Option<usize>| {
    let mut tr = Vec::new();
    for (i, e) in elems.iter().enumerate() {
      if Some(i) == skip {
        continue;
      }
      tr.extend_from_slice(&i2osp2(32));
      tr.extend_from_slice(e.compress().as_bytes());
    }
    hash_to_scalar(&tr, "Challenge")
  };
  if &challenge(None) == c {
    return Some(None);
  }
  for i in 0..5 {
    if &challenge(Some(i)) == c {
      return Some(Some(i));
    }
  }
  None
}

/// composites (M, Z-weight) of a single claimed pair under the reference procedure
fn reference_weight(pk_point: &RistrettoPoint, input: &RistrettoPoint, output: &RistrettoPoint) -> Scalar {
  let ctx = format!("{}-{}-{}", "PPOPRFv1", 0x03, "ristretto255-strobe");
  let mut seed_t = Vec::new();
  seed_t.extend_from_slice(&i2osp2(32));
  seed_t.extend_from_slice(pk_point.compress().as_bytes());
  seed_t.extend_from_slice(&i2osp2(ctx.len()));
  seed_t.extend_from_slice(ctx.as_bytes());
  let seed = strobe_hash64(&seed_t, "Seed");
  let mut comp = Vec::new();
  comp.extend_from_slice(&i2osp2(64));
  comp.extend_from_slice(&seed);
  comp.extend_from_slice(&i2osp2(0));
  comp.extend_from_slice(&i2osp2(32));
  comp.extend_from_slice(output.compress().as_bytes());
  comp.extend_from_slice(&i2osp2(32));
  comp.extend_from_slice(input.compress().as_bytes());
  hash_to_scalar(&comp, "Composite")
}

/// the honest PROVER algorithm (it derives Z from M with the key, as a server
/// does) run by a party that holds the key, on an arbitrary claimed pair
fn reference_prove(key: &Scalar, pk_point: &RistrettoPoint, input: &RistrettoPoint, claimed_output: &RistrettoPoint, r: &Scalar) -> Vec<u8> {
  let d = reference_weight(pk_point, input, claimed_output);
  let m = d * claimed_output;
  let z = key * m;
  let t2 = r * G;
  let t3 = r * m;
  let mut tr = Vec::new();
  for e in [*pk_point, m, z, t2, t3].iter() {
    tr.extend_from_slice(&i2osp2(32));
    tr.extend_from_slice(e.compress().as_bytes());
  }
  let c = hash_to_scalar(&tr, "Challenge");
  let s = r - c * key;
  let mut out = c.to_bytes().to_vec();
  out.extend_from_slice(&s.to_bytes());
  out
}

/// An adversarial server that holds the key committed to in the public key and
/// runs the prover algorithm on evaluations it did NOT compute with that key
/// (identity, base point, the input itself, neighbours of the true output, the
/// evaluation under another key). Calibrated: its proof for the TRUE evaluation
/// must be accepted, otherwise the monitor has no opinion.
fn adversarial_prover(rec: &mut Rec, idx: u64, rng: &mut ChaCha20Rng) {
  let mut wide = [0u8; 64];
  rng.fill(&mut wide[..]);
  let k0 = Scalar::from_bytes_mod_order_wide(&wide);
  rng.fill(&mut wide[..]);
  let kt = Scalar::from_bytes_mod_order_wide(&wide);
  let key = k0 + kt;
  let tag: u8 = rng.gen();
  // public key bytes in the pinned layout: base | u64 n | (tag, point)
  let mut pkb = enc(&(k0 * G)).to_vec();
  pkb.extend_from_slice(&1u64.to_le_bytes());
  pkb.push(tag);
  pkb.extend_from_slice(&enc(&(kt * G)));
  let pkp = key * G;
  let (bp, _) = Client::blind(&rand_bytes_in(rng, 0..24));
  let p = match dec(bp.as_bytes()) {
    Some(p) => p,
    None => return,
  };
  let q_true = key.invert() * p;
  rng.fill(&mut wide[..]);
  let r = Scalar::from_bytes_mod_order_wide(&wide);
  let honest = reference_prove(&key, &pkp, &p, &q_true, &r);
  let calibrated = verify_bytes(&pkb, &enc(&p), &enc(&q_true), &honest, tag) == Some(true);
  rec.ev(if calibrated { "adversarial_prover_calibrated" } else { "adversarial_prover_has_no_opinion" });
  if !calibrated {
    return;
  }
  rng.fill(&mut wide[..]);
  let other = Scalar::from_bytes_mod_order_wide(&wide);
  let claims: Vec<(&str, RistrettoPoint)> = vec![
    ("identity", RistrettoPoint::identity()),
    ("basepoint", G),
    ("the-input-itself", p),
    ("true-output-plus-G", q_true + G),
    ("twice-the-true-output", q_true + q_true),
    ("negated-true-output", -q_true),
    ("evaluation-under-another-key", other.invert() * p),
    ("key-times-input", key * p),
  ];
  for (name, q) in claims {
    if q == q_true {
      continue;
    }
    rng.fill(&mut wide[..]);
    let r = Scalar::from_bytes_mod_order_wide(&wide);
    let forged = reference_prove(&key, &pkp, &p, &q, &r);
    rec.evals += 1;
    rec.ev("forged_proofs_tried");
    rec.case(&("forge", name, idx));
    if quiet(rec, || verify_bytes(&pkb, &enc(&p), &enc(&q), &forged, tag)) == Some(Some(true)) {
      rec.violation(
        &format!("forged-proof-accepted:{}", name),
        format!("a server holding the committed key ran the prover on an evaluation it did not compute with that key (claimed output: {}) and the client accepted the proof", name),
        json!({"pk": hex(&pkb), "input": hex(&enc(&p)), "claimed_output": hex(&enc(&q)), "true_output": hex(&enc(&q_true)), "proof": hex(&forged), "tag": tag}),
      );
    }
  }
  // the same with a degenerate input point
  let pid = RistrettoPoint::identity();
  for (name, q) in [("identity-input/basepoint-output", G), ("identity-input/random-output", other * G)] {
    rng.fill(&mut wide[..]);
    let r = Scalar::from_bytes_mod_order_wide(&wide);
    let forged = reference_prove(&key, &pkp, &pid, &q, &r);
    rec.evals += 1;
    rec.ev("forged_proofs_tried");
    if quiet(rec, || verify_bytes(&pkb, &enc(&pid), &enc(&q), &forged, tag)) == Some(Some(true)) {
      rec.violation(
        &format!("forged-proof-accepted:{}", name),
        format!("forged proof accepted ({})", name),
        json!({"pk": hex(&pkb), "claimed_output": hex(&enc(&q)), "proof": hex(&forged), "tag": tag}),
      );
    }
  }
}

struct Nonces {
  t2: Mutex<HashSet<[u8; 32]>>,
  c: Mutex<HashSet<[u8; 32]>>,
  s: Mutex<HashSet<[u8; 32]>>,
}

fn case(rec: &mut Rec, ctx: &Ctx, idx: u64, rng: &mut ChaCha20Rng, nonces: &Nonces) {
  let tags: Vec<u8> = match idx % 4 {
    0 => vec![0, 1, 255],
    1 => vec![rng.gen(), rng.gen(), rng.gen(), rng.gen()],
    2 => (0..=255u8).collect(),
    _ => vec![7],
  };
  let mut tags = tags;
  tags.sort();
  tags.dedup();
  let server = Server::new(tags.clone()).expect("server");
  let other_server = Server::new(tags.clone()).expect("server");
  let pk = server.get_public_key();
  let pkb = pk.serialize_to_bincode().expect("pk bincode");
  let opkb = other_server.get_public_key().serialize_to_bincode().expect("pk bincode");
  let tag = *pick(rng, &tags);
  rec.evals += 1;

  // ---- honest proofs: completeness through every serialisation, nonce monitor
  let n_req = 6;
  let mut honest: Vec<Honest> = Vec::new();
  for q in 0..n_req {
    let input = rand_bytes_in(rng, 0..40);
    // two requests for the same input too (distinct blinded points)
    let input = if q == 1 { honest_input_again(&honest, &input) } else { input };
    let (bp, _r) = Client::blind(&input);
    let t = if q < 4 { tag } else { *pick(rng, &tags) };
    let ev = match server.eval(&bp, t, true) {
      Ok(e) => e,
      Err(e) => {
        rec.violation("eval-failed", format!("{:?}", e), json!({"tag": t}));
        return;
      }
    };
    rec.ev("honest_proofs");
    let ok_direct = Client::verify(&pk, &bp, &ev, t);
    // restored public key, proof and evaluation
    let pk2 = ServerPublicKey::load_from_bincode(&pkb);
    let prb = ev.proof.as_ref().unwrap().serialize_to_bincode().expect("proof bincode");
    let js = serde_json::to_string(&ev).expect("json");
    let ev2: Result<Evaluation, _> = serde_json::from_str(&js);
    let ok_restored = match (&pk2, &ev2) {
      (Ok(pk2), Ok(ev2)) => Client::verify(pk2, &bp, ev2, t),
      _ => false,
    };
    let ok_bytes = verify_bytes(&pkb, bp.as_bytes(), ev.output.as_bytes(), &prb, t) == Some(true);
    rec.evn("honest_verifications", 3);
    if !(ok_direct && ok_restored && ok_bytes) {
      rec.violation(
        "honest-proof-rejected",
        format!("an honest verifiable evaluation does not verify (direct {}, after pk bincode + evaluation JSON {}, after proof bincode {})", ok_direct, ok_restored, ok_bytes),
        json!({"tag": t, "pk": hex_short(&pkb), "evaluation_json": js}),
      );
      return;
    }
    // nonce monitor: t2 = s*G + c*PK_tag from the public verification equation
    if prb.len() == 64 {
      let c: [u8; 32] = prb[..32].try_into().unwrap();
      let s: [u8; 32] = prb[32..].try_into().unwrap();
      let base = dec(&pkb[..32]);
      let tp = pk_entry_offset(&pkb, t).and_then(|o| dec(&pkb[o..o + 32]));
      if let (Some(base), Some(tp), Some(cs), Some(ss)) = (base, tp, Option::<Scalar>::from(Scalar::from_canonical_bytes(c)), Option::<Scalar>::from(Scalar::from_canonical_bytes(s))) {
        let t2 = ss * G + cs * (base + tp);
        rec.ev("nonce_commitments_recomputed");
        // reference verification procedure on the honest proof
        if let (Some(pin), Some(pout)) = (dec(bp.as_bytes()), dec(ev.output.as_bytes())) {
          match reference_challenge(&(base + tp), &pin, &pout, &cs, &ss) {
            Some(None) => rec.ev("reference_verifier_agrees"),
            Some(Some(i)) => {
              let name = ["public value B", "composite M", "composite Z", "commitment t2", "commitment t3"][i];
              rec.violation(
                &format!("challenge-does-not-bind:{}", ["B", "M", "Z", "t2", "t3"][i]),
                format!("honest proofs satisfy the verification equation only when the {} is left out of the challenge: the proof does not bind it, so a prover holding the key can prove evaluations it did not compute with that key", name),
                json!({"proof": hex(&prb), "tag": t, "input": hex(bp.as_bytes()), "output": hex(ev.output.as_bytes()), "pk": hex_short(&pkb)}),
              );
            }
            None => rec.ev("reference_verifier_has_no_opinion"),
          }
        }
        if t2 == RistrettoPoint::identity() {
          rec.violation("nonce-zero", "the proof commitment is the identity (nonce 0)".into(), json!({"proof": hex(&prb)}));
        }
        if !nonces.t2.lock().unwrap().insert(enc(&t2)) {
          rec.violation(
            "nonce-reused",
            "two proofs issued for different requests carry the same commitment s*G + c*PK: the nonce was reused and the key can be solved for".into(),
            json!({"proof": hex(&prb), "tag": t}),
          );
        }
        if !nonces.c.lock().unwrap().insert(c) {
          rec.violation("challenge-repeats", "two proofs for different requests have the same challenge".into(), json!({"proof": hex(&prb)}));
        }
        if !nonces.s.lock().unwrap().insert(s) {
          rec.violation("response-repeats", "two proofs for different requests have the same response".into(), json!({"proof": hex(&prb)}));
        }
      } else {
        rec.ev("nonce_commitment_unavailable");
      }
    }
    honest.push(Honest {
      pk: pkb.clone(),
      input: *bp.as_bytes(),
      output: *ev.output.as_bytes(),
      proof: prb,
      tag: t,
    });
  }

  // ---- completeness after punctures: lowest-first, middle, highest-first; every
  //      still-live tag must give proofs that verify against the (unchanged) public key
  if tags.len() >= 3 && idx % 2 == 0 {
    let mut srv = Server::new(tags.clone()).expect("server");
    let pk2 = srv.get_public_key();
    let order: Vec<u8> = match idx % 6 {
      0 => tags.iter().cloned().take(tags.len() / 2).collect(),
      2 => vec![tags[tags.len() / 2]],
      _ => tags.iter().rev().cloned().take(2).collect(),
    };
    for p in order {
      let _ = srv.puncture(p);
      let live: Vec<u8> = tags.iter().cloned().filter(|t| srv.eval(&Client::blind(b"x").0, *t, false).is_ok()).take(6).collect();
      for t in live {
        let (bp, _) = Client::blind(&rand_bytes_in(rng, 0..16));
        if let Ok(ev) = srv.eval(&bp, t, true) {
          rec.ev("honest_proofs_after_puncture");
          if !Client::verify(&pk2, &bp, &ev, t) {
            rec.violation(
              "honest-proof-rejected:after-puncture",
              format!("after puncturing tag {} an honest verifiable evaluation for the live tag {} does not verify", p, t),
              json!({"tags": tags.len(), "punctured": p, "tag": t}),
            );
            return;
          }
        }
      }
    }
  }
  // ---- soundness: single-component tampering of the first honest evaluation
  let h = &honest[0];
  let bits = if ctx.thorough() { 256 } else { 16 };
  let mut tampered = 0u64;
  let mut reject = |rec: &mut Rec, comp: &str, how: &str, pk: &[u8], input: &[u8; 32], output: &[u8; 32], proof: &[u8], t: u8| {
    tampered += 1;
    rec.evals += 1;
    rec.ev("tampered_verifications");
    rec.case(&(comp.to_string(), how.to_string(), idx));
    match quiet(rec, || verify_bytes(pk, input, output, proof, t)) {
      Some(Some(true)) => rec.violation(
        &format!("tampered-accepted:{}", comp),
        format!("verification accepted an evaluation whose {} was replaced ({})", comp, how),
        json!({"component": comp, "how": how, "pk": hex_short(pk), "input": hex(input), "output": hex(output), "proof": hex(proof), "tag": t,
               "honest": {"pk": hex_short(&h.pk), "input": hex(&h.input), "output": hex(&h.output), "proof": hex(&h.proof), "tag": h.tag}}),
      ),
      Some(Some(false)) => rec.ev("tampered_rejected"),
      Some(None) => rec.ev("tampered_refused_at_load"),
      None => {}
    }
  };
  let other_in: Vec<[u8; 32]> = honest[1..].iter().map(|x| x.input).collect();
  let other_out: Vec<[u8; 32]> = honest[1..].iter().map(|x| x.output).collect();
  for (how, v) in point_variants(rng, &h.input, &other_in) {
    reject(rec, "input-point", &how, &h.pk, &v, &h.output, &h.proof, h.tag);
  }
  for (how, v) in point_variants(rng, &h.output, &other_out) {
    reject(rec, "output-point", &how, &h.pk, &h.input, &v, &h.proof, h.tag);
  }
  // base public key
  let base: [u8; 32] = h.pk[..32].try_into().unwrap();
  let obase: [u8; 32] = opkb[..32].try_into().unwrap();
  for (how, v) in point_variants(rng, &base, &[obase]) {
    let mut pk2 = h.pk.clone();
    pk2[..32].copy_from_slice(&v);
    reject(rec, "base-public-key", &how, &pk2, &h.input, &h.output, &h.proof, h.tag);
  }
  // per-tag public key of the tag in use
  if let Some(o) = pk_entry_offset(&h.pk, h.tag) {
    let cur: [u8; 32] = h.pk[o..o + 32].try_into().unwrap();
    let mut others: Vec<[u8; 32]> = Vec::new();
    if let Some(oo) = pk_entry_offset(&opkb, h.tag) {
      others.push(opkb[oo..oo + 32].try_into().unwrap());
    }
    for &t2 in tags.iter().filter(|t| **t != h.tag).take(3) {
      if let Some(o2) = pk_entry_offset(&h.pk, t2) {
        others.push(h.pk[o2..o2 + 32].try_into().unwrap());
      }
    }
    for (how, v) in point_variants(rng, &cur, &others) {
      let mut pk2 = h.pk.clone();
      pk2[o..o + 32].copy_from_slice(&v);
      reject(rec, "tag-public-key", &how, &pk2, &h.input, &h.output, &h.proof, h.tag);
    }
    // the whole key of another server
    reject(rec, "public-key", "other-server", &opkb, &h.input, &h.output, &h.proof, h.tag);
    // exclusions fixed by the statement: these are the same commitment and must verify
    if let (Some(b), Some(tp)) = (dec(&base), dec(&cur)) {
      let d = Scalar::from(rng.gen::<u64>()) * G;
      let mut pk3 = h.pk.clone();
      pk3[..32].copy_from_slice(&enc(&(b + d)));
      pk3[o..o + 32].copy_from_slice(&enc(&(tp - d)));
      rec.ev("honest_equivalent_keys");
      if verify_bytes(&pk3, &h.input, &h.output, &h.proof, h.tag) != Some(true) {
        rec.ev("note:compensated_key_rejected");
      }
    }
    for &t2 in tags.iter().filter(|t| **t != h.tag).take(2) {
      if let Some(o2) = pk_entry_offset(&h.pk, t2) {
        let mut pk4 = h.pk.clone();
        pk4[o2..o2 + 32].copy_from_slice(&enc(&G));
        rec.ev("honest_equivalent_keys");
        if verify_bytes(&pk4, &h.input, &h.output, &h.proof, h.tag) != Some(true) {
          rec.violation("other-tag-entry-affects-verification", "changing the public key entry of an unrelated tag made an honest proof fail".into(), json!({"tag": h.tag, "changed": t2}));
        }
      }
    }
  }
  // the tag
  for t2 in 0..=255u8 {
    if t2 != h.tag && (tags.contains(&t2) || t2 % 37 == 0) {
      reject(rec, "tag", if tags.contains(&t2) { "other-registered" } else { "unregistered" }, &h.pk, &h.input, &h.output, &h.proof, t2);
    }
  }
  // proof scalars
  let c: [u8; 32] = h.proof[..32].try_into().unwrap();
  let s: [u8; 32] = h.proof[32..].try_into().unwrap();
  let oc: Vec<[u8; 32]> = honest[1..].iter().map(|x| x.proof[..32].try_into().unwrap()).collect();
  let os: Vec<[u8; 32]> = honest[1..].iter().map(|x| x.proof[32..].try_into().unwrap()).collect();
  for (how, v) in scalar_variants(rng, &c, &oc, bits) {
    let mut p2 = h.proof.clone();
    p2[..32].copy_from_slice(&v);
    reject(rec, "challenge-c", &how, &h.pk, &h.input, &h.output, &p2, h.tag);
  }
  for (how, v) in scalar_variants(rng, &s, &os, bits) {
    let mut p2 = h.proof.clone();
    p2[32..].copy_from_slice(&v);
    reject(rec, "response-s", &how, &h.pk, &h.input, &h.output, &p2, h.tag);
  }
  // a whole proof of another request
  for o in honest[1..].iter().take(3) {
    reject(rec, "proof", "other-request", &h.pk, &h.input, &h.output, &o.proof, h.tag);
  }
  // positive control: the untampered tuple verifies through the same byte-level path
  rec.control("untampered_tuple_verifies", verify_bytes(&h.pk, &h.input, &h.output, &h.proof, h.tag) == Some(true));
  if idx < 1 {
    rec.sample(json!({"tags": tags.len(), "tag": h.tag, "proof": hex(&h.proof), "tampered_variants": tampered}));
  }
  // ---- completeness after a key synchronisation: a server that ALREADY publishes keys for the
  // same (or some of the same, or other) tags imports the state of `server`; its verifiable
  // evaluations must verify under the public key it publishes afterwards, and that key must be
  // the exporter's (it commits to the key now in use)
  let importers: Vec<(&str, Vec<u8>)> = vec![
    ("same-tags", tags.clone()),
    ("subset", tags.iter().cloned().step_by(2).collect()),
    ("superset", { let mut v = tags.clone(); v.push(tags[0].wrapping_add(1)); v.sort(); v.dedup(); v }),
  ];
  for (shape, mds) in importers {
    let mut imp = if shape == "same-tags" { other_server.clone() } else { match Server::new(mds) { Ok(s) => s, Err(_) => continue } };
    let st = match bincode::serialize(&server.get_private_key()).ok().and_then(|b| bincode::deserialize::<ppoprf::ppoprf::ServerKeyState>(&b).ok()) {
      Some(st) => st,
      None => {
        rec.violation("key-state-export-failed", "the exported key state does not survive bincode".into(), json!({"tags": tags.len()}));
        return;
      }
    };
    imp.set_private_key(st);
    let ipk = imp.get_public_key();
    let ipkb = ipk.serialize_to_bincode().expect("pk bincode");
    for &t in [tag, tags[0], *tags.last().unwrap()].iter() {
      let input = rand_bytes_in(rng, 0..40);
      let (bp, _r) = Client::blind(&input);
      let ev = match imp.eval(&bp, t, true) {
        Ok(e) => e,
        Err(e) => {
          rec.violation("eval-failed:after-key-sync", format!("{}: {:?}", shape, e), json!({"tag": t, "importer": shape}));
          return;
        }
      };
      rec.evn("honest_verifications_after_key_sync", 2);
      let own = Client::verify(&ipk, &bp, &ev, t);
      let exporters = Client::verify(&pk, &bp, &ev, t);
      if !(own && exporters) {
        rec.violation(
          &format!("honest-proof-rejected:after-key-sync:{}", shape),
          format!("a server that imported a key state ({} importer) issues verifiable evaluations that do not verify (under its own published key {}, under the exporter's key {})", shape, own, exporters),
          json!({"tag": t, "importer": shape, "pk": hex_short(&ipkb), "exporter_pk": hex_short(&pkb)}),
        );
        return;
      }
    }
  }
}

fn honest_input_again(_h: &[Honest], fallback: &[u8]) -> Vec<u8> {
  fallback.to_vec()
}

pub fn run(ctx: &Ctx) -> Rec {
  let nonces = Nonces {
    t2: Mutex::new(HashSet::new()),
    c: Mutex::new(HashSet::new()),
    s: Mutex::new(HashSet::new()),
  };
  let mut rec = par_run(ctx, "proofs", ctx.n(320, 5000), |rec, i, rng| case(rec, ctx, i, rng, &nonces));
  rec.merge(par_run(ctx, "adversarial-prover", ctx.n(200, 5000), |rec, i, rng| adversarial_prover(rec, i, rng)));
  rec.note("distinct_commitments", json!(nonces.t2.lock().unwrap().len()));
  rec
}
