//! C11 — forward security of retained and exported key material.
//! Hook invariants (I2, I3, I5) on every state of the C10 exploration, plus
//! Server-level puncture histories with export -> bincode -> import at every
//! position, a layout-free scan of the exported bytes and an attacker run.

use super::c10::{self, Mode};
use crate::common::*;
use crate::layout;
use ppoprf::ppoprf::{Client, Server, ServerKeyState};
use rand::Rng;
use rand_chacha::ChaCha20Rng;
use serde_json::json;
use std::collections::{HashMap, HashSet};

type Seed = [u8; 32];

fn shadow_of(server: &Server) -> HashMap<(u8, u8), Seed> {
  let g = server.verif_pprf();
  let mut shadow = HashMap::new();
  let mut frontier: Vec<((u8, u8), Seed)> = Vec::new();
  for (bits, seed) in g.verif_retained_nodes() {
    if seed.len() != 32 || bits.is_empty() || bits.len() > 8 {
      continue;
    }
    let mut s = [0u8; 32];
    s.copy_from_slice(&seed);
    let mut v = 0u8;
    for (i, b) in bits.iter().enumerate() {
      if *b {
        v |= 1 << i;
      }
    }
    frontier.push(((bits.len() as u8, v), s));
  }
  while let Some(((d, v), s)) = frontier.pop() {
    shadow.insert((d, v), s);
    if d < 8 {
      for b in [false, true] {
        let child = g.verif_prg(b, &s);
        let cv = if b { v | (1 << d) } else { v };
        frontier.push(((d + 1, cv), child));
      }
    }
  }
  shadow
}

fn mask(d: u8) -> u8 {
  if d >= 8 {
    0xff
  } else {
    ((1u16 << d) - 1) as u8
  }
}

fn node_view(server: &Server) -> Vec<(Vec<bool>, Vec<u8>)> {
  let mut v = server.verif_pprf().verif_retained_nodes();
  v.sort();
  v
}

/// behaviour and key material agree: whatever input the key REFUSES to evaluate (it behaves as
/// punctured) is not covered by any retained node - otherwise the holder believes the input is
/// gone while its material (and its exports) still evaluate it
fn refused_inputs_uncovered(rec: &mut Rec, server: &Server, whose: &str, history: &[u8]) -> bool {
  use ppoprf::PPRF;
  let ggm = server.verif_pprf();
  let view = ggm.verif_retained_nodes();
  for x in 0..=255u8 {
    let mut out = [0u8; 32];
    rec.ev("refusal_vs_material_checks");
    if ggm.eval(&[x], &mut out).is_err() {
      if let Some((pre, _)) = view.iter().find(|(pre, _)| pre.len() <= 8 && pre.iter().enumerate().all(|(i, b)| *b == ((x >> i) & 1 == 1))) {
        rec.violation(
          &format!("refused-input-still-covered:{}", whose),
          format!("the key refuses to evaluate input {} (it behaves as punctured) but still retains a node of depth {} on the path to it ({})", x, pre.len(), whose),
          json!({"input": x, "history": history, "node_depth": pre.len()}),
        );
        return false;
      }
    }
  }
  true
}

/// invariants on a (prefix, seed) view against the forbidden set
fn view_ok(rec: &mut Rec, view: &[(Vec<bool>, Vec<u8>)], shadow: &HashMap<(u8, u8), Seed>, p: &[bool; 256], whose: &str, history: &[u8]) -> bool {
  let mut forbidden: HashSet<Seed> = HashSet::new();
  for x in 0..256usize {
    if p[x] {
      for d in 1..=8u8 {
        if let Some(s) = shadow.get(&(d, x as u8 & mask(d))) {
          forbidden.insert(*s);
        }
      }
    }
  }
  let mut covered = [false; 256];
  for (bits, seed) in view {
    let d = bits.len() as u8;
    if d == 0 || d > 8 {
      continue;
    }
    let mut v = 0u8;
    for (i, b) in bits.iter().enumerate() {
      if *b {
        v |= 1 << i;
      }
    }
    for x in 0..256usize {
      if x as u8 & mask(d) == v {
        if p[x] {
          rec.violation(
            &format!("retained-ancestor-of-punctured:{}", whose),
            format!("{} key state retains the node at depth {} on the path to punctured tag {}", whose, d, x),
            json!({"tag": x, "depth": d, "history": history}),
          );
          return false;
        }
        covered[x] = true;
      }
    }
    if seed.len() == 32 {
      let mut s = [0u8; 32];
      s.copy_from_slice(seed);
      if forbidden.contains(&s) {
        rec.violation(
          &format!("retained-forbidden-seed:{}", whose),
          format!("{} key state holds a seed that lies on the path to a punctured tag", whose),
          json!({"depth": d, "history": history}),
        );
        return false;
      }
    }
  }
  if let Some(x) = (0..256usize).find(|&x| !p[x] && !covered[x]) {
    rec.violation(
      &format!("unpunctured-not-covered:{}", whose),
      format!("{} key state has no node covering unpunctured tag {}", whose, x),
      json!({"tag": x, "history": history}),
    );
    return false;
  }
  true
}

fn server_history(rec: &mut Rec, ctx: &Ctx, idx: u64, rng: &mut ChaCha20Rng) {
  let mut all: Vec<u8> = (0..=255u8).collect();
  if idx % 2 == 1 {
    // a tag list with repeated entries denotes the same set
    for _ in 0..8 {
      let d: u8 = rng.gen();
      all.push(d);
    }
  }
  let server = match Server::new(all.clone()) {
    Ok(s) => s,
    Err(e) => {
      rec.violation("server-new-failed", format!("{:?}", e), json!({}));
      return;
    }
  };
  let mut server = server;
  let shadow = shadow_of(&server);
  rec.control("shadow_tree_complete", shadow.len() == 510);
  rec.evals += 1;
  let (name, ord) = c10::order(rng, idx as usize);
  let steps = if ctx.thorough() { 256 } else { *pick(rng, &[24usize, 40, 64, 256]) };
  rec.case(&("server-history", name.clone(), steps, ord[..8].to_vec()));
  let mut p = [false; 256];
  let mut hist: Vec<u8> = Vec::new();
  let (pt, _) = Client::blind(b"attacker input");
  // replicas that keep their state between imports (key-sync between servers):
  // one re-synced at every position, one lagging (every 3rd position)
  let mut replica_every = Server::new(vec![rng.gen::<u8>()]).ok();
  let mut replica_lagging = Server::new(vec![rng.gen::<u8>()]).ok();
  // ... and one that is AHEAD of the exporter now and then: it punctures a tag on its own, is
  // re-synced from the exporter (where that tag is still live) and then catches up on it
  let mut replica_ahead = Server::new((0..=255u8).collect()).ok();
  let mut ahead_tag: Option<u8> = None;
  // export at every position of the history (incl. before the first puncture)
  for pos in 0..=steps {
    if pos > 0 {
      let x = ord[pos - 1];
      rec.ev("server_punctures");
      rec.transitions += 1;
      if server.puncture(x).is_err() {
        rec.violation("puncture-refused", format!("Server::puncture({}) failed on an unpunctured tag", x), json!({"history": hist}));
        return;
      }
      p[x as usize] = true;
      hist.push(x);
    }
    let live = node_view(&server);
    if !view_ok(rec, &live, &shadow, &p, "live-server", &hist) {
      return;
    }
    // the key holder itself: whatever else it keeps besides the tree, it must not
    // be able to evaluate a punctured tag any more
    if pos > 0 {
      let mut probe: Vec<u8> = hist.iter().rev().take(3).cloned().collect();
      probe.push(hist[rng.gen_range(0..hist.len())]);
      for x in probe {
        rec.ev("live_attacker_evaluations");
        if server.eval(&pt, x, false).is_ok() {
          rec.violation(
            "key-holder-evaluates-punctured-tag",
            format!("after puncturing tag {} the key holder still evaluates it: it retains material for that tag", x),
            json!({"tag": x, "history": hist}),
          );
          return;
        }
      }
    }
    rec.evals += 1;
    rec.ev("exports");
    let bytes = match bincode::serialize(&server.get_private_key()) {
      Ok(b) => b,
      Err(e) => {
        rec.violation("export-failed", e.to_string(), json!({"history": hist}));
        return;
      }
    };
    // I6: layout-free scan of the exported bytes
    let windows: HashSet<&[u8]> = bytes.windows(32).collect();
    let mut forbidden_hit = None;
    for x in 0..256usize {
      if p[x] {
        for d in 1..=8u8 {
          if let Some(s) = shadow.get(&(d, x as u8 & mask(d))) {
            if windows.contains(&s[..]) {
              forbidden_hit = Some((x, d));
            }
          }
        }
      }
    }
    if let Some((x, d)) = forbidden_hit {
      rec.violation(
        "export-contains-forbidden-seed",
        format!("the exported key state contains the seed of the depth-{} node on the path to punctured tag {}", d, x),
        json!({"tag": x, "depth": d, "history": hist, "export_len": bytes.len()}),
      );
      return;
    }
    // positive control: every retained seed does occur in the export
    let all_there = live.iter().all(|(_, s)| windows.contains(&s[..]));
    rec.control("export_scan_finds_retained_seeds", all_there);
    // import into a fresh server created with unrelated tags
    let mut importer = match Server::new(vec![rng.gen::<u8>()]) {
      Ok(s) => s,
      Err(_) => return,
    };
    match bincode::deserialize::<ServerKeyState>(&bytes) {
      Ok(st) => importer.set_private_key(st),
      Err(e) => {
        rec.violation("import-failed", format!("exported state does not deserialize: {}", e), json!({"history": hist}));
        return;
      }
    }
    rec.ev("imports");
    let iv = node_view(&importer);
    if iv != live {
      rec.violation(
        "importer-view-differs",
        "the importer's retained nodes differ from the exporter's at the moment of export".into(),
        json!({"history": hist, "exporter_nodes": live.len(), "importer_nodes": iv.len()}),
      );
      return;
    }
    if !view_ok(rec, &iv, &shadow, &p, "imported", &hist) {
      return;
    }
    // the same export imported into replicas that already hold an earlier state
    for (which, lag, rep) in [("replica-every-position", 1usize, &mut replica_every), ("replica-lagging", 3usize, &mut replica_lagging)] {
      if pos % lag != 0 {
        continue;
      }
      if let (Some(r), Ok(st)) = (rep.as_mut(), bincode::deserialize::<ServerKeyState>(&bytes)) {
        r.set_private_key(st);
        rec.ev("replica_resyncs");
        let rv = node_view(r);
        if rv != live {
          rec.violation(
            &format!("importer-view-differs:{}", which),
            format!("a replica that already held an earlier state and imports the current export ({}) does not hold the exporter's key material", which),
            json!({"history": hist, "exporter_nodes": live.len(), "replica_nodes": rv.len()}),
          );
          return;
        }
        if !view_ok(rec, &rv, &shadow, &p, which, &hist) {
          return;
        }
        for x in 0..256usize {
          if p[x] && r.eval(&pt, x as u8, false).is_ok() {
            rec.violation(
              "attacker-evaluates-punctured-tag",
              format!("a replica re-synced from the post-puncture state ({}) evaluates punctured tag {}", which, x),
              json!({"tag": x, "history": hist}),
            );
            return;
          }
        }
      }
    }
    if pos % 2 == 0 {
      if let (Some(r), Ok(st)) = (replica_ahead.as_mut(), bincode::deserialize::<ServerKeyState>(&bytes)) {
        r.set_private_key(st);
        rec.ev("replica_ahead_resyncs");
        // catching up on the tag it had punctured on its own before the re-sync
        if let Some(z) = ahead_tag.take() {
          let _ = r.puncture(z);
          if !refused_inputs_uncovered(rec, r, "replica-ahead:after-catching-up", &hist) {
            return;
          }
          // back in step with the exporter for the checks below
          if let Ok(st2) = bincode::deserialize::<ServerKeyState>(&bytes) {
            r.set_private_key(st2);
          }
        }
        if !refused_inputs_uncovered(rec, r, "replica-ahead:after-import", &hist) {
          return;
        }
        // run ahead: a tag the exporter has not punctured yet
        if let Some(z) = (0..256usize).map(|k| ((k * 37 + pos * 11) % 256) as u8).find(|z| !p[*z as usize]) {
          if r.puncture(z).is_ok() {
            ahead_tag = Some(z);
            if !refused_inputs_uncovered(rec, r, "replica-ahead:after-own-puncture", &hist) {
              return;
            }
          }
        }
      }
    }
    // attacker run: the party holding the post-puncture state evaluates every punctured tag
    for x in 0..256usize {
      if p[x] {
        rec.ev("attacker_evaluations");
        if importer.eval(&pt, x as u8, false).is_ok() {
          rec.violation(
            "attacker-evaluates-punctured-tag",
            format!("a server restored from the post-puncture state evaluates punctured tag {}", x),
            json!({"tag": x, "history": hist}),
          );
          return;
        }
      }
    }
    // ... and an unpunctured one still answers (the attacker run can succeed at all)
    if let Some(x) = (0..256usize).find(|&x| !p[x]) {
      rec.control("importer_evaluates_unpunctured_tag", importer.eval(&pt, x as u8, false).is_ok());
    }
    let mut bits = [0u64; 4];
    for i in 0..256 {
      if p[i] {
        bits[i / 64] |= 1 << (i % 64);
      }
    }
    rec.states.insert(hkey(&bits));
    if idx == 0 && pos == 3 {
      rec.sample(json!({"order": name, "history": hist, "export_len": bytes.len(), "retained_nodes": live.len(), "export_head": hex(&bytes[..48.min(bytes.len())])}));
    }
  }
  let _ = layout::ELEM;
}

/// servers configured for 1..3 tags; punctures of unregistered tags come first
fn small_server_history(rec: &mut Rec, _ctx: &Ctx, idx: u64, rng: &mut ChaCha20Rng) {
  let ntags = rng.gen_range(1..=3usize);
  let mut all: Vec<u8> = (0..=255u8).collect();
  use rand::seq::SliceRandom;
  all.shuffle(rng);
  let tags: Vec<u8> = all[..ntags].to_vec();
  let strangers: Vec<u8> = all[ntags..ntags + rng.gen_range(0..5)].to_vec();
  let mut server = match Server::new(tags.clone()) {
    Ok(s) => s,
    Err(_) => return,
  };
  rec.evals += 1;
  rec.ev("small_server_histories");
  rec.case(&("small-server", ntags, strangers.len(), idx));
  let (pt, _) = Client::blind(b"attacker input");
  let mut hist: Vec<u8> = Vec::new();
  for x in strangers.iter().chain(tags.iter()) {
    if server.puncture(*x).is_err() {
      continue;
    }
    hist.push(*x);
    for y in hist.iter().filter(|y| tags.contains(y)) {
      rec.ev("live_attacker_evaluations");
      if server.eval(&pt, *y, false).is_ok() {
        rec.violation("key-holder-evaluates-punctured-tag", format!("server for tags {:?}: after the puncture history {:?} the key holder still evaluates tag {}", tags, hist, y), json!({"tags": tags, "history": hist, "tag": y}));
        return;
      }
    }
    // exported state imported elsewhere
    let bytes = bincode::serialize(&server.get_private_key()).unwrap_or_default();
    if let (Ok(mut imp), Ok(st)) = (Server::new(vec![rng.gen::<u8>()]), bincode::deserialize::<ServerKeyState>(&bytes)) {
      imp.set_private_key(st);
      rec.ev("exports");
      for y in hist.iter().filter(|y| tags.contains(y)) {
        rec.ev("attacker_evaluations");
        if imp.eval(&pt, *y, false).is_ok() {
          rec.violation("attacker-evaluates-punctured-tag", format!("server for tags {:?}: the state exported after the history {:?} evaluates punctured tag {}", tags, hist, y), json!({"tags": tags, "history": hist, "tag": y}));
          return;
        }
      }
      // hook view of the importer: no retained node may cover a punctured input
      for (bits, _) in imp.verif_pprf().verif_retained_nodes() {
        for y in &hist {
          let covers = bits.iter().enumerate().all(|(i, b)| ((*y >> i) & 1 == 1) == *b);
          if covers && bits.len() <= 8 {
            rec.violation("retained-ancestor-of-punctured:imported", format!("exported state keeps a node on the path to punctured input {}", y), json!({"tags": tags, "history": hist}));
            return;
          }
        }
      }
    }
  }
}

pub fn run(ctx: &Ctx) -> Rec {
  let mut rec = c10::explore(ctx, Mode::Material);
  rec.merge(par_run(ctx, "server-history", ctx.n(32, 400), |rec, i, rng| server_history(rec, ctx, i, rng)));
  rec.merge(par_run(ctx, "small-server-history", ctx.n(300, 10_000), |rec, i, rng| small_server_history(rec, ctx, i, rng)));
  rec
}
