//! C14 — the randomness server answers iff the tag is registered and
//! unpunctured, under any history of evaluations, punctures, clones and key
//! export/import. Sequential reference model + bounded-exhaustive histories,
//! random histories with export at every position, and a concurrent stress
//! whose recorded call/return history is checked offline.

use crate::common::*;
use ppoprf::ppoprf::{Client, Point, Server, ServerKeyState};
use rand::seq::SliceRandom;
use rand::Rng;
use rand_chacha::ChaCha20Rng;
use serde_json::{json, Value};
use std::collections::{BTreeSet, HashMap};
use std::sync::atomic::{AtomicBool, AtomicU64, Ordering};
use std::sync::{Arc, Mutex, RwLock};

#[derive(Clone)]
struct Model {
  registered: BTreeSet<u8>,
  punctured: BTreeSet<u8>,
}

struct World {
  insts: Vec<(Server, Model)>,
  cur: usize,
  pk0: Vec<u8>,
  pool: Vec<Point>,
  memo: HashMap<(u8, usize), Vec<u8>>,
  hist: Vec<String>,
}

impl Clone for World {
  fn clone(&self) -> Self {
    World {
      insts: self.insts.iter().map(|(s, m)| (s.clone(), m.clone())).collect(),
      cur: self.cur,
      pk0: self.pk0.clone(),
      pool: self.pool.clone(),
      memo: self.memo.clone(),
      hist: self.hist.clone(),
    }
  }
}

fn pool(n: usize) -> Vec<Point> {
  let mut v: Vec<Point> = (0..n).map(|i| Client::blind(format!("pool point {}", i).as_bytes()).0).collect();
  // structured points a client may send: the identity and the base point
  if n >= 2 {
    v[n - 1] = Point::from(&[0u8; 32][..]);
  }
  if n >= 3 {
    v[n - 2] = Point::from(&curve25519_dalek::constants::RISTRETTO_BASEPOINT_COMPRESSED.to_bytes()[..]);
  }
  v
}

impl World {
  fn new(tags: &[u8], npool: usize) -> Option<World> {
    Self::new_with_list(tags, tags, npool)
  }

  /// `list` is what is handed to Server::new (may repeat tags, in any order);
  /// `tags` is the set it denotes
  fn new_with_list(tags: &[u8], list: &[u8], npool: usize) -> Option<World> {
    let s = Server::new(list.to_vec()).ok()?;
    let pk0 = s.get_public_key().serialize_to_bincode().ok()?;
    Some(World {
      insts: vec![(
        s,
        Model {
          registered: tags.iter().cloned().collect(),
          punctured: BTreeSet::new(),
        },
      )],
      cur: 0,
      pk0,
      pool: pool(npool),
      memo: HashMap::new(),
      hist: vec![],
    })
  }

  fn replay(&self, extra: Value) -> Value {
    json!({"history": self.hist, "instances": self.insts.len(), "current": self.cur, "extra": extra})
  }

  /// eval on instance `i` against the model; returns false on violation
  fn eval_on(&mut self, rec: &mut Rec, i: usize, tag: u8, pt: usize, verifiable: bool) -> bool {
    rec.ev("op_eval");
    let r = self.insts[i].0.eval(&self.pool[pt], tag, verifiable);
    let m = &self.insts[i].1;
    let should = m.registered.contains(&tag) && !m.punctured.contains(&tag);
    match r {
      Ok(ev) => {
        if !should {
          let why = if !m.registered.contains(&tag) { "unregistered" } else { "punctured" };
          rec.violation(
            &format!("answers-for-{}-tag", why),
            format!("instance {} answered for {} tag {}", i, why, tag),
            self.replay(json!({"tag": tag, "instance": i})),
          );
          return false;
        }
        if verifiable && !Client::verify(&self.insts[i].0.get_public_key(), &self.pool[pt], &ev, tag) {
          rec.violation("honest-proof-rejected", format!("verifiable answer for tag {} does not verify against the server's public key", tag), self.replay(json!({"tag": tag})));
          return false;
        }
        let out = ev.output.as_bytes().to_vec();
        match self.memo.get(&(tag, pt)) {
          Some(prev) if prev != &out => {
            rec.violation(
              "answer-changed",
              format!("the answer for (tag {}, point {}) changed during the history", tag, pt),
              self.replay(json!({"tag": tag, "point": pt, "before": hex(prev), "after": hex(&out)})),
            );
            return false;
          }
          Some(_) => {}
          None => {
            self.memo.insert((tag, pt), out);
          }
        }
        rec.ev("eval_answered");
      }
      Err(_) => {
        if should && self.pool[pt].as_bytes() == &[0u8; 32] {
          // the neutral element is a degenerate request (the VOPRF specification lets a server
          // refuse it); the statement is about tags - a refusal of THIS point is only counted
          rec.ev("identity_point_refused");
          return true;
        }
        if should {
          rec.violation(
            "refuses-registered-unpunctured-tag",
            format!("instance {} refused tag {} which is registered and was not punctured in its history", i, tag),
            self.replay(json!({"tag": tag, "instance": i})),
          );
          return false;
        }
        rec.ev("eval_refused");
      }
    }
    true
  }

  fn puncture_cur(&mut self, rec: &mut Rec, tag: u8) -> bool {
    rec.ev("op_puncture");
    let i = self.cur;
    let r = self.insts[i].0.puncture(tag);
    let already = self.insts[i].1.punctured.contains(&tag);
    match r {
      Ok(()) => {
        if already {
          // (the statement of this property does not say what a second puncture of the same tag
          // returns - that is C10's business at the key level; here it is a no-op for the model)
          rec.ev("double_puncture_accepted");
        }
        self.insts[i].1.punctured.insert(tag);
      }
      Err(_) => {
        if !already {
          // a refused puncture leaves the model unchanged; the statement does not
          // demand that puncturing succeeds, only what follows when it does
          rec.ev("puncture_refused_first_time");
        }
      }
    }
    self.check_pk(rec, i)
  }

  fn check_pk(&mut self, rec: &mut Rec, i: usize) -> bool {
    rec.ev("public_key_reads");
    let now = self.insts[i].0.get_public_key().serialize_to_bincode().unwrap_or_default();
    if now != self.pk0 {
      rec.violation("public-key-changed", format!("the public key of instance {} differs from the key published at creation", i), self.replay(json!({"instance": i})));
      return false;
    }
    true
  }

  fn export_import(&mut self, rec: &mut Rec, rng_tag: u8) -> bool {
    rec.ev("op_export_import");
    let i = self.cur;
    let bytes = match bincode::serialize(&self.insts[i].0.get_private_key()) {
      Ok(b) => b,
      Err(e) => {
        rec.violation("export-failed", e.to_string(), self.replay(json!({})));
        return false;
      }
    };
    let mut imp = match Server::new(vec![rng_tag]) {
      Ok(s) => s,
      Err(_) => return true,
    };
    match bincode::deserialize::<ServerKeyState>(&bytes) {
      Ok(st) => imp.set_private_key(st),
      Err(e) => {
        rec.violation("import-failed", e.to_string(), self.replay(json!({})));
        return false;
      }
    }
    let m = self.insts[i].1.clone();
    self.insts.push((imp, m));
    self.cur = self.insts.len() - 1;
    let c = self.cur;
    self.check_pk(rec, c)
  }

  /// import the current instance's exported state into an EXISTING instance
  /// (a replica that already holds an earlier or unrelated state) and switch to it
  fn resync_into(&mut self, rec: &mut Rec, target: usize) -> bool {
    rec.ev("op_resync");
    let i = self.cur;
    let bytes = match bincode::serialize(&self.insts[i].0.get_private_key()) {
      Ok(b) => b,
      Err(e) => {
        rec.violation("export-failed", e.to_string(), self.replay(json!({})));
        return false;
      }
    };
    match bincode::deserialize::<ServerKeyState>(&bytes) {
      Ok(st) => self.insts[target].0.set_private_key(st),
      Err(e) => {
        rec.violation("import-failed", e.to_string(), self.replay(json!({})));
        return false;
      }
    }
    // whole-state replacement: the importer is the exporter at the moment of export
    let m = self.insts[i].1.clone();
    self.insts[target].1 = m;
    self.cur = target;
    self.check_pk(rec, target)
  }

  fn clone_switch(&mut self, rec: &mut Rec) {
    rec.ev("op_clone");
    let i = self.cur;
    let c = (self.insts[i].0.clone(), self.insts[i].1.clone());
    self.insts.push(c);
    self.cur = self.insts.len() - 1;
  }

  /// behaviour of every instance on `tags` x pool against its own model
  fn check_all(&mut self, rec: &mut Rec, tags: &[u8]) -> bool {
    for i in 0..self.insts.len() {
      for &t in tags {
        for p in 0..self.pool.len() {
          if !self.eval_on(rec, i, t, p, false) {
            return false;
          }
        }
      }
      if !self.check_pk(rec, i) {
        return false;
      }
    }
    true
  }
}

// ---------------------------------------------------------------------------
// (a) bounded-exhaustive

fn exhaustive(rec: &mut Rec, depth: usize, a: u8, b: u8, u: u8, extra_registered: &[u8], first: usize) {
  let mut tags = vec![a, b];
  tags.extend_from_slice(extra_registered);
  // some configurations list a tag twice / out of order
  let mut list = tags.clone();
  if first % 2 == 1 {
    list.push(a);
    list.insert(0, b);
  }
  let w0 = match World::new_with_list(&tags, &list, 2) {
    Some(w) => w,
    None => return,
  };
  let probe = [a, b, u];
  let mut leaves = 0u64;
  fn go(rec: &mut Rec, w: &World, depth: usize, probe: &[u8; 3], leaves: &mut u64, only: Option<usize>) -> bool {
    if depth == 0 {
      let mut w2 = w.clone();
      *leaves += 1;
      rec.evals += 1;
      rec.states.insert(hkey(&w.hist));
      rec.case(&("seq", probe, &w.hist));
      return w2.check_all(rec, probe);
    }
    // alphabet: eval x3 tags, puncture x3 tags, export-import into a fresh
    // instance, clone-and-switch, re-sync into the oldest instance
    for op in 0..9usize {
      if only.map(|o| o != op).unwrap_or(false) {
        continue;
      }
      let mut w2 = w.clone();
      rec.transitions += 1;
      let ok = match op {
        0..=2 => {
          w2.hist.push(format!("eval({})", probe[op]));
          let c = w2.cur;
          w2.eval_on(rec, c, probe[op], 0, op == 0)
        }
        3..=5 => {
          w2.hist.push(format!("puncture({})", probe[op - 3]));
          w2.puncture_cur(rec, probe[op - 3])
        }
        6 => {
          w2.hist.push("export+import".into());
          w2.export_import(rec, probe[2].wrapping_add(100))
        }
        7 => {
          w2.hist.push("clone+switch".into());
          w2.clone_switch(rec);
          true
        }
        _ => {
          w2.hist.push("resync-into(0)".into());
          w2.resync_into(rec, 0)
        }
      };
      if !ok || !go(rec, &w2, depth - 1, probe, leaves, None) {
        return false;
      }
    }
    true
  }
  go(rec, &w0, depth, &probe, &mut leaves, Some(first));
  rec.evn("exhaustive_sequences", leaves);
  rec.exhaustive = true;
  rec.evals += 1; // the configuration itself (its sequences are counted one by one below)
  rec.case(&("exhaustive", depth, a, b, u, first));
}

// ---------------------------------------------------------------------------
// (b) random histories with export at every position

fn random_history(rec: &mut Rec, ctx: &Ctx, idx: u64, rng: &mut ChaCha20Rng) {
  let ntags = *pick(rng, &[2usize, 3, 8, 32, 256]);
  let mut all: Vec<u8> = (0..=255u8).collect();
  all.shuffle(rng);
  let mut tags: Vec<u8> = all[..ntags].to_vec();
  if idx % 2 == 0 && ntags < 256 {
    for t in [0u8, 255] {
      if !tags.contains(&t) {
        tags.push(t);
      }
    }
  }
  tags.sort();
  let mut list = tags.clone();
  if idx % 3 == 1 {
    // repeated and shuffled entries in the list handed to Server::new
    for _ in 0..rng.gen_range(1..6) {
      let d = *pick(rng, &tags);
      list.insert(rng.gen_range(0..=list.len()), d);
    }
    list.shuffle(rng);
  }
  let mut w = match World::new_with_list(&tags, &list, 3) {
    Some(w) => w,
    None => return,
  };
  rec.evals += 1;
  rec.case(&("history", ntags, idx));
  let len = if ctx.thorough() { rng.gen_range(200..2000) } else { rng.gen_range(100..260) };
  for step in 0..len {
    let tag = match rng.gen_range(0..10) {
      0..=5 => *pick(rng, &tags),
      6 | 7 => {
        let t = *pick(rng, &tags);
        if rng.gen_bool(0.5) {
          t.wrapping_add(1)
        } else {
          t.wrapping_sub(1)
        }
      }
      _ => rng.gen(),
    };
    let ok = match rng.gen_range(0..20) {
      0..=10 => {
        w.hist.push(format!("eval({})", tag));
        let c = w.cur;
        let p = rng.gen_range(0..3);
        w.eval_on(rec, c, tag, p, rng.gen_bool(0.2))
      }
      11..=15 => {
        w.hist.push(format!("puncture({})", tag));
        w.puncture_cur(rec, tag)
      }
      16 => {
        w.hist.push("export+import".into());
        w.export_import(rec, rng.gen())
      }
      17 => {
        if rng.gen_bool(0.5) {
          w.hist.push("clone+switch".into());
          w.clone_switch(rec);
          true
        } else {
          let target = rng.gen_range(0..w.insts.len());
          w.hist.push(format!("resync-into({})", target));
          w.resync_into(rec, target)
        }
      }
      _ => {
        // switch back to an older instance: clones / exporters evolve independently
        w.cur = rng.gen_range(0..w.insts.len());
        w.hist.push(format!("switch({})", w.cur));
        true
      }
    };
    if !ok {
      return;
    }
    if w.insts.len() > 12 {
      // keep the world small: drop the oldest non-current instance
      let drop = if w.cur == 0 { 1 } else { 0 };
      w.insts.remove(drop);
      if w.cur > drop {
        w.cur -= 1;
      }
    }
    // export at every position: a throw-away importer must be indistinguishable
    // from the exporter at this moment (all punctured tags + a few others)
    let cur = w.cur;
    let bytes = bincode::serialize(&w.insts[cur].0.get_private_key()).unwrap_or_default();
    if let (Ok(mut imp), Ok(st)) = (Server::new(vec![rng.gen()]), bincode::deserialize::<ServerKeyState>(&bytes)) {
      imp.set_private_key(st);
      rec.ev("export_positions");
      let m = w.insts[cur].1.clone();
      let mut probe: Vec<u8> = m.punctured.iter().cloned().collect();
      for _ in 0..6 {
        probe.push(*pick(rng, &tags));
        probe.push(rng.gen());
      }
      let full = step % 64 == 63;
      let probe: Vec<u8> = if full { (0..=255u8).collect() } else { probe };
      for t in probe {
        let should = m.registered.contains(&t) && !m.punctured.contains(&t);
        let a = imp.eval(&w.pool[0], t, false);
        let b = w.insts[cur].0.eval(&w.pool[0], t, false);
        rec.ev("importer_comparisons");
        let same = match (&a, &b) {
          (Ok(x), Ok(y)) => x.output == y.output,
          (Err(_), Err(_)) => true,
          _ => false,
        };
        if !same || a.is_ok() != should {
          rec.violation(
            "importer-differs-from-exporter",
            format!("a server restored from exported state behaves differently from the exporter for tag {} (importer answers: {}, exporter answers: {}, model: {})", t, a.is_ok(), b.is_ok(), should),
            w.replay(json!({"tag": t, "position": step})),
          );
          return;
        }
      }
      if imp.get_public_key().serialize_to_bincode().unwrap_or_default() != w.pk0 {
        rec.violation("importer-public-key-differs", "the importer's public key differs from the exporter's".into(), w.replay(json!({"position": step})));
        return;
      }
    } else {
      rec.violation("import-failed", "exported state does not import".into(), w.replay(json!({"position": step})));
      return;
    }
  }
  let probe: Vec<u8> = if tags.len() <= 32 { (0..=255u8).collect() } else { tags.iter().cloned().step_by(5).collect() };
  w.check_all(rec, &probe);
  if idx < 1 {
    rec.sample(json!({"registered_tags": tags.len(), "operations": len, "history_head": &w.hist[..10.min(w.hist.len())], "instances_at_end": w.insts.len()}));
  }
}

// ---------------------------------------------------------------------------
// (c) concurrent stress in the shape of examples/server.rs

#[derive(Clone, Debug)]
struct Ev {
  thread: usize,
  op: &'static str,
  tag: u8,
  pt: usize,
  call: u64,
  ret: u64,
  ok: bool,
  out: Vec<u8>,
}

fn spin(rng: &mut ChaCha20Rng) {
  match rng.gen_range(0..4) {
    0 => std::thread::yield_now(),
    1 => {
      for _ in 0..rng.gen_range(0..2000) {
        std::hint::spin_loop();
      }
    }
    _ => {}
  }
}

fn concurrent(rec: &mut Rec, ctx: &Ctx, idx: u64, rng: &mut ChaCha20Rng) {
  let tags: Vec<u8> = vec![0, 1, 2, 3, 7, 128, 254, 255];
  let server = match Server::new(tags.clone()) {
    Ok(s) => s,
    Err(_) => return,
  };
  let pool = Arc::new(pool(2));
  let pk0 = server.get_public_key().serialize_to_bincode().unwrap_or_default();
  let shared = Arc::new(RwLock::new(server));
  let clock = Arc::new(AtomicU64::new(1));
  let log: Arc<Mutex<Vec<Ev>>> = Arc::new(Mutex::new(Vec::new()));
  let stop = Arc::new(AtomicBool::new(false));
  let n_eval = rng.gen_range(8..=15usize);
  rec.evals += 1;
  rec.case(&("concurrent", n_eval, idx));
  let mut handles = Vec::new();
  for th in 0..n_eval {
    let (shared, clock, log, stop, pool, tags) = (shared.clone(), clock.clone(), log.clone(), stop.clone(), pool.clone(), tags.clone());
    let mut r = case_rng(ctx, "conc-eval", idx * 64 + th as u64);
    handles.push(std::thread::spawn(move || {
      let mut mine = Vec::new();
      let mut n = 0;
      while !stop.load(Ordering::Relaxed) && n < 40 {
        let tag = *pick(&mut r, &tags);
        let pt = r.gen_range(0..2);
        spin(&mut r);
        let call = clock.fetch_add(1, Ordering::SeqCst);
        let res = {
          let g = shared.read().unwrap();
          g.eval(&pool[pt], tag, false)
        };
        let ret = clock.fetch_add(1, Ordering::SeqCst);
        mine.push(Ev { thread: th, op: "eval", tag, pt, call, ret, ok: res.is_ok(), out: res.map(|e| e.output.as_bytes().to_vec()).unwrap_or_default() });
        n += 1;
      }
      log.lock().unwrap().extend(mine);
    }));
  }
  // one puncturing thread
  {
    let (shared, clock, log, tags) = (shared.clone(), clock.clone(), log.clone(), tags.clone());
    let mut r = case_rng(ctx, "conc-punct", idx);
    handles.push(std::thread::spawn(move || {
      let mut order = tags.clone();
      order.shuffle(&mut r);
      order.truncate(5);
      let mut mine = Vec::new();
      for tag in order {
        for _ in 0..r.gen_range(1..6) {
          spin(&mut r);
        }
        let call = clock.fetch_add(1, Ordering::SeqCst);
        let res = {
          let mut g = shared.write().unwrap();
          g.puncture(tag)
        };
        let ret = clock.fetch_add(1, Ordering::SeqCst);
        mine.push(Ev { thread: 100, op: "puncture", tag, pt: 0, call, ret, ok: res.is_ok(), out: vec![] });
      }
      log.lock().unwrap().extend(mine);
    }));
  }
  // one exporting thread: export under the read lock, import elsewhere, probe the importer
  {
    let (shared, clock, log, pool, tags) = (shared.clone(), clock.clone(), log.clone(), pool.clone(), tags.clone());
    let mut r = case_rng(ctx, "conc-export", idx);
    handles.push(std::thread::spawn(move || {
      let mut mine = Vec::new();
      for _ in 0..6 {
        spin(&mut r);
        let call = clock.fetch_add(1, Ordering::SeqCst);
        let bytes = {
          let g = shared.read().unwrap();
          bincode::serialize(&g.get_private_key()).unwrap_or_default()
        };
        let ret = clock.fetch_add(1, Ordering::SeqCst);
        if let (Ok(mut imp), Ok(st)) = (Server::new(vec![9]), bincode::deserialize::<ServerKeyState>(&bytes)) {
          imp.set_private_key(st);
          for &t in &tags {
            let res = imp.eval(&pool[0], t, false);
            mine.push(Ev { thread: 200, op: "export-probe", tag: t, pt: 0, call, ret, ok: res.is_ok(), out: res.map(|e| e.output.as_bytes().to_vec()).unwrap_or_default() });
          }
        } else {
          mine.push(Ev { thread: 200, op: "export-failed", tag: 0, pt: 0, call, ret, ok: false, out: vec![] });
        }
      }
      log.lock().unwrap().extend(mine);
    }));
  }
  for h in handles {
    let _ = h.join();
  }
  stop.store(true, Ordering::Relaxed);
  let log = log.lock().unwrap().clone();
  rec.evn("concurrent_events", log.len() as u64);
  // ---- offline checker, per tag
  let punct: HashMap<u8, &Ev> = log.iter().filter(|e| e.op == "puncture" && e.ok).map(|e| (e.tag, e)).collect();
  let mut answers: HashMap<(u8, usize), Vec<u8>> = HashMap::new();
  let mut interleavings = 0u64;
  let rp = |e: &Ev, why: &str| json!({"why": why, "event": format!("{:?}", e), "punctures": punct.values().map(|p| format!("{:?}", p)).collect::<Vec<_>>()});
  for e in &log {
    match e.op {
      "eval" | "export-probe" => {
        if e.ok {
          // a successful answer was invoked before the puncture returned
          if let Some(p) = punct.get(&e.tag) {
            if e.call > p.ret {
              rec.violation("concurrent:answer-after-puncture", format!("tag {} answered by an operation invoked after its puncture had returned ({})", e.tag, e.op), rp(e, "answer after puncture"));
              return;
            }
            if e.ret > p.call {
              interleavings += 1;
            }
          }
          let k = (e.tag, e.pt);
          match answers.get(&k) {
            Some(prev) if prev != &e.out => {
              rec.violation("concurrent:answer-changed", format!("two answers for (tag {}, point {}) differ", e.tag, e.pt), rp(e, "answer changed"));
              return;
            }
            Some(_) => {}
            None => {
              answers.insert(k, e.out.clone());
            }
          }
        } else {
          // every refusal of a registered tag returned after the puncture was invoked
          match punct.get(&e.tag) {
            Some(p) if e.ret > p.call => {
              if e.call < p.ret {
                interleavings += 1;
              }
            }
            _ if pool[e.pt.min(pool.len() - 1)].as_bytes() == &[0u8; 32] => {
              rec.ev("identity_point_refused");
            }
            _ => {
              rec.violation("concurrent:refusal-without-puncture", format!("registered tag {} refused although no puncture of it had been invoked ({})", e.tag, e.op), rp(e, "refusal without puncture"));
              return;
            }
          }
        }
      }
      "export-failed" => {
        rec.violation("concurrent:export-failed", "state exported under the read lock does not import".into(), rp(e, "export failed"));
        return;
      }
      _ => {}
    }
  }
  rec.evn("overlapping_eval_puncture_pairs", interleavings);
  if interleavings > 0 {
    rec.ev("histories_with_real_overlap");
  }
  let fin = shared.read().unwrap().get_public_key().serialize_to_bincode().unwrap_or_default();
  if fin != pk0 {
    rec.violation("public-key-changed", "public key changed during the concurrent history".into(), json!({}));
  }
  if idx < 1 {
    rec.sample(json!({"eval_threads": n_eval, "events": log.len(), "first_events": log.iter().take(4).map(|e| format!("{:?}", e)).collect::<Vec<_>>() }));
  }
}

pub fn run(ctx: &Ctx) -> Rec {
  let depth = if ctx.thorough() { 6 } else { 5 };
  let depth = ctx.extra.get("depth").map(|d| d.parse().unwrap()).unwrap_or(depth);
  // the 8 first-level branches of each tag configuration run in parallel as
  // separate exhaustive sub-trees (depth-1 each) would lose the shared prefix
  // checks, so configurations are the parallel unit instead
  let configs: Vec<(u8, u8, u8, Vec<u8>)> = vec![
    (0, 1, 2, vec![]),
    (254, 255, 253, vec![]),
    (255, 0, 1, vec![128]),
    (7, 8, 9, vec![0, 255]),
    (0, 255, 128, vec![]),
    (127, 128, 129, vec![1]),
  ];
  let only = ctx.extra.get("only").cloned().unwrap_or_default();
  let want = |k: &str| only.is_empty() || only == k;
  let ncfg = if !want("exhaustive") { 0 } else if ctx.scale < 1.0 { 1 } else if ctx.thorough() { configs.len() as u64 } else { 4 };
  let mut rec = par_run(ctx, "exhaustive", ncfg * 9, |rec, i, _| {
    let (a, b, u, extra) = &configs[(i / 9) as usize];
    exhaustive(rec, depth, *a, *b, *u, extra, (i % 9) as usize);
    if i == 0 {
      rec.sample(json!({"exhaustive_alphabet": ["eval(a)", "eval(b)", "eval(u)", "puncture(a)", "puncture(b)", "puncture(u)", "export+import(fresh)", "clone+switch", "resync-into(oldest)"], "a": a, "b": b, "unregistered": u, "depth": depth}));
    }
  });
  rec.note("exhaustive_depth", json!(depth));
  if want("history") {
    rec.merge(par_run(ctx, "history", ctx.n(64, 2000), |rec, i, rng| random_history(rec, ctx, i, rng)));
  }
  if !want("concurrent") {
    return rec;
  }
  // concurrent histories run one at a time (each spawns its own 10-17 threads)
  let mut c1 = ctx.clone();
  c1.threads = 2;
  rec.merge(par_run(&c1, "concurrent", ctx.n(40, 1500), |rec, i, rng| concurrent(rec, ctx, i, rng)));
  rec
}
