//! C08 — wire encodings round-trip and reject malformed input, in agreement
//! with an independent parser of the documented layout.

use crate::common::*;
use crate::exec::{exec, model, Outcome};
use crate::gen::*;
use crate::hostile::{self, Target};
use crate::layout::{self, AdssShare, Report, SharkShare};
use rand::Rng;
use rand_chacha::ChaCha20Rng;
use serde_json::json;
use std::convert::TryFrom;

fn honest(rec: &mut Rec, ctx: &Ctx, idx: u64, rng: &mut ChaCha20Rng) {
  rec.evals += 1;
  match idx % 3 {
    0 => {
      // reports over the C01 generator
      let sc = Scenario::gen(rng, ctx.thorough());
      let n = rng.gen_range(1..4);
      let mut auxes: Vec<Option<Vec<u8>>> = (0..n).map(|_| aux(rng, sc.measurement.len(), ctx.thorough())).collect();
      if idx % 60 == 0 {
        // a ciphertext chunk just below / at / above 2^16 bytes
        let target = 65_536 + rng.gen_range(0..3) as usize - 1;
        auxes[0] = Some(rand_bytes(rng, target.saturating_sub(8 + sc.measurement.len())));
      }
      let reps = match sc.make_reports(rng, &auxes) {
        Ok(r) => r,
        Err(e) => {
          rec.violation("generate-failed", e, json!({}));
          return;
        }
      };
      for r in &reps {
        rec.ev("report_roundtrip");
        rec.case(&("report", sc.t.min(20), r.bytes.len()));
        let back = sta_rs::Message::from_bytes(&r.bytes);
        if back.as_ref() != Some(&r.msg) {
          rec.violation("roundtrip:report", "decode(encode(report)) != report".into(), json!({"report": hex_short(&r.bytes)}));
        }
        // layout with every field equal to ground truth
        match Report::decode_with_fields(&r.bytes) {
          Some((l, f)) => {
            let want_ct_len = layout::frame_payload(&sc.measurement, r.aux.as_deref()).len();
            let ok = l.ct == r.msg.ciphertext.to_bytes()
              && l.tag == r.msg.tag
              && l.share.encode() == r.msg.share.to_bytes()
              && l.share.t == sc.t
              && f.end == r.bytes.len()
              && l.encode() == r.bytes;
            // (what is INSIDE the ciphertext chunk - e.g. a nonce next to the encrypted payload - is
            // not part of the documented wire layout; a length other than the payload's is only counted)
            if l.ct.len() != want_ct_len {
              rec.ev("ciphertext_chunk_longer_or_shorter_than_payload");
            }
            if !ok {
              rec.violation(
                "layout:report",
                format!("encoded report does not follow the documented layout (threshold field {} vs {}, |ct| {} vs {}, consumed {} of {})", l.share.t, sc.t, l.ct.len(), want_ct_len, f.end, r.bytes.len()),
                json!({"report": hex_short(&r.bytes)}),
              );
            }
          }
          None => rec.violation("layout:report", "honest report does not parse under the documented layout".into(), json!({"report": hex_short(&r.bytes)})),
        }
        // the share alone
        let sb = r.msg.share.to_bytes();
        if sta_rs::Share::from_bytes(&sb).as_ref() != Some(&r.msg.share) {
          rec.violation("roundtrip:star-share", "decode(encode(share)) != share".into(), json!({"share": hex_short(&sb)}));
        }
      }
    }
    1 => {
      // adss shares, message / coin lengths up to 100k
      let big = if ctx.thorough() { 100_000 } else { 5_000 };
      let ml = *pick(rng, &[0usize, 1, 4, 32, 166, 167, 1000, big, 65_535, 65_536, 70_000]);
      let rl = *pick(rng, &[0usize, 1, 4, 32, 166, 1000, big, 65_535, 65_536]);
      let t = *pick(rng, &[0u32, 1, 2, 50, 1000, u32::MAX]);
      let t = if t > 50 && (ml > 1000 || rl > 1000) { 50 } else { t };
      let t = if t > 1000 { 1000 } else { t }; // dealing is O(t)
      let m = rand_bytes(rng, ml);
      let r = rand_bytes(rng, rl);
      rec.ev("adss_roundtrip");
      rec.case(&("adss", t, ml, rl));
      match adss::Commune::new(t, m, r, None).share() {
        Ok(s) => {
          let b = s.to_bytes();
          if adss::Share::from_bytes(&b).as_ref() != Some(&s) {
            rec.violation("roundtrip:adss-share", "decode(encode(share)) != share".into(), json!({"share": hex_short(&b), "t": t}));
          }
          match AdssShare::decode(&b) {
            Some(l) => {
              if l.t != t || l.c.len() != ml || l.d.len() != rl || l.encode() != b || l.s.ys.len() != 1 {
                rec.violation("layout:adss-share", format!("field mismatch: t {} vs {}, |C| {} vs {}, |D| {} vs {}, ys {}", l.t, t, l.c.len(), ml, l.d.len(), rl, l.s.ys.len()), json!({"share": hex_short(&b)}));
              }
            }
            None => rec.violation("layout:adss-share", "honest share does not parse under the documented layout".into(), json!({"share": hex_short(&b)})),
          }
        }
        Err(e) => rec.violation("share-failed", e.to_string(), json!({"t": t})),
      }
    }
    _ => {
      // Shamir shares with 0..16 y from the real dealer
      let k = rng.gen_range(0..=16usize);
      let t = rng.gen_range(1..=5u32);
      let mut secret = Vec::new();
      let mut elems = Vec::new();
      for _ in 0..k {
        let e = hostile::rand_elem(rng);
        secret.extend_from_slice(&e);
        elems.push(e);
      }
      rec.ev("sharks_roundtrip");
      rec.case(&("sharks", k, t));
      let sharks = star_sharks::Sharks(t);
      if let Ok(mut ev) = sharks.dealer_rng(&secret, rng) {
        let s = ev.next().unwrap();
        let b: Vec<u8> = Vec::from(&s);
        match star_sharks::Share::try_from(&b[..]) {
          Ok(back) if back == s => {}
          _ => rec.violation("roundtrip:sharks-share", "decode(encode(share)) != share".into(), json!({"share": hex_short(&b)})),
        }
        match SharkShare::decode(&b) {
          Some(l) if l.ys.len() == k && l.encode() == b && b.len() == 24 * (k + 1) => {
            // x is the iterator count 1 in the documented LE encoding
            let mut one = [0u8; 24];
            one[0] = 1;
            if l.x != one {
              rec.violation("layout:sharks-share", "x of the first iterator share is not the 24-byte LE encoding of 1".into(), json!({"share": hex_short(&b)}));
            }
            if t == 1 && l.ys != elems {
              rec.violation("layout:sharks-share", "with threshold 1 the y-coordinates are not the secret's canonical elements".into(), json!({"share": hex_short(&b)}));
            }
          }
          _ => rec.violation("layout:sharks-share", "share encoding is not x|y_1|..|y_k of 24-byte canonical elements".into(), json!({"share": hex_short(&b)})),
        }
      }
    }
  }
}

pub fn differential_case(rec: &mut Rec, c: &hostile::Case) {
  let m = match model(c) {
    Some(m) => m,
    None => return,
  };
  rec.ev("differential");
  rec.evals += 1;
  rec.case(&(c.target, h64(&[&c.blobs[0]])));
  let real = quiet(rec, || exec(c));
  let tname = format!("{:?}", c.target);
  let kind = c.desc.split(':').next().unwrap_or("").to_string();
  match (m, real) {
    (Some(canon), Some(Outcome::Accepted(re))) => {
      rec.ev("both_accept");
      if re != canon {
        rec.violation(
          &format!("reencode-differs:{}:{}", tname, kind),
          format!("{} accepted the input ({}) but its re-encoding is not the canonical form of the input", tname, c.desc),
          json!({"case": c.to_json(), "reencoded": hex_short(&re), "model_canonical": hex_short(&canon)}),
        );
      }
    }
    (None, Some(Outcome::Rejected)) => rec.ev("both_reject"),
    (Some(canon), Some(Outcome::Rejected)) => {
      if crate::exec::input_is_canonical(c, &canon) {
        rec.violation(
          &format!("valid-rejected:{}:{}", tname, kind),
          format!("{} rejected an input that is the canonical encoding of a value under the documented layout ({})", tname, c.desc),
          json!({"case": c.to_json()}),
        )
      } else {
        // tolerated-but-not-canonical forms (ignored trailing bytes / partial element): the
        // statement binds a decoder only when it accepts
        rec.ev("noncanonical_form_rejected")
      }
    }
    (None, Some(Outcome::Accepted(re))) => rec.violation(
      &format!("malformed-accepted:{}:{}", tname, kind),
      format!("{} accepted a structurally invalid input ({})", tname, c.desc),
      json!({"case": c.to_json(), "reencoded": hex_short(&re)}),
    ),
    (Some(_), None) => rec.violation(
      &format!("valid-input-panicked:{}:{}", tname, kind),
      format!("the layout model accepts the input but {} panicked ({})", tname, c.desc),
      json!({"case": c.to_json()}),
    ),
    (None, None) => rec.ev("model_reject_decoder_panicked(owned by C09)"),
    _ => {}
  }
}

fn differential(rec: &mut Rec, ctx: &Ctx, g: u64, _rng: &mut ChaCha20Rng) {
  // decoder groups only
  let g = (g / 4) * 8 + (g % 4);
  let cases = hostile::group(ctx, g);
  for (i, c) in cases.iter().enumerate() {
    if matches!(
      c.target,
      Target::SharksTryFrom | Target::AdssFromBytes | Target::StarShareFromBytes | Target::MessageFromBytes | Target::LoadBytes | Target::LoadU32 | Target::AccessStructure
    ) {
      differential_case(rec, c);
      if g < 4 && i == 7 {
        rec.sample(c.to_json());
      }
    }
  }
}

/// very long shares: element counts around a MiB of y-coordinates
fn giant(rec: &mut Rec, _ctx: &Ctx, idx: u64, rng: &mut ChaCha20Rng) {
  let ny = [43_689usize, 43_690, 43_691, 50_000, 65_535, 65_536, 65_537, 100_000][(idx % 8) as usize];
  let sh = hostile::model_shark(rng, ny);
  let enc = sh.encode();
  rec.evals += 1;
  rec.ev("giant_share_roundtrip");
  rec.case(&("giant", ny));
  let c = hostile::Case::one(Target::SharksTryFrom, format!("giant:{}", ny), enc.clone());
  differential_case(rec, &c);
  // out-of-range element near the end must be refused
  let mut bad = enc.clone();
  let off = 24 * (ny - rng.gen_range(0..3));
  bad[off..off + 24].copy_from_slice(&[0xff; 24]);
  differential_case(rec, &hostile::Case::one(Target::SharksTryFrom, format!("giant-bad-tail:{}", ny), bad));
  // the same share inside an adss share
  if idx % 2 == 0 {
    let a = crate::layout::AdssShare { t: 3, s: sh, c: vec![1, 2, 3], d: vec![4, 5], j: [7u8; 64] };
    differential_case(rec, &hostile::Case::one(Target::AdssFromBytes, format!("giant-adss:{}", ny), a.encode()));
  }
}

pub fn run(ctx: &Ctx) -> Rec {
  let mut rec = par_run(ctx, "honest", ctx.n(3000, 100_000), |rec, i, rng| honest(rec, ctx, i, rng));
  rec.merge(par_run(ctx, "differential", ctx.n(480, 16000), |rec, i, rng| differential(rec, ctx, i, rng)));
  rec.merge(par_run(ctx, "giant", ctx.n(8, 64), |rec, i, rng| giant(rec, ctx, i, rng)));
  rec
}
