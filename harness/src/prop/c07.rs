//! C07 — Fp is Z/(2^128+12451) with one canonical encoding.
//! Oracle: num-bigint arithmetic; operands: boundary lattice (exhaustive
//! B x B) plus seeded uniform operands; encodings; published constants.

use crate::bigfield as bf;
use crate::common::*;
use ff::{Field, PrimeField};
use num_bigint::BigUint;
use num_traits::{One, Zero};
use rand::Rng;
use serde_json::json;
use star_sharks::{Fp, FpRepr};

fn to_fp(v: &BigUint) -> Option<Fp> {
  Option::from(Fp::from_repr(FpRepr(bf::to_le24(v))))
}
fn of_fp(f: &Fp) -> BigUint {
  bf::from_le(f.to_repr().as_ref())
}

pub fn lattice() -> Vec<BigUint> {
  let p = bf::p();
  let one = BigUint::one();
  let two64: BigUint = &one << 64usize;
  let two128: BigUint = &one << 128usize;
  let mut v: Vec<BigUint> = vec![
    BigUint::zero(),
    one.clone(),
    BigUint::from(2u32),
    BigUint::from(3u32),
    BigUint::from(12450u32),
    BigUint::from(12451u32),
    BigUint::from(12452u32),
    (&one << 63) - &one,
    &one << 63,
    (&one << 63) + &one,
    &two64 - &one,
    two64.clone(),
    &two64 + &one,
    (&one << 127) - &one,
    &one << 127,
    (&one << 127) + &one,
    &two128 - &one,
    two128.clone(),
    &two128 + &one,
    (&p - &one) >> 1,
    (&p + &one) >> 1,
    ((&p - &one) >> 1) - &one,
    ((&p + &one) >> 1) + &one,
    &p - BigUint::from(3u32),
    &p - BigUint::from(2u32),
    &p - &one,
    (&one << 192) % &p,
    ((&one << 192) - &one) % &p,
    // all-ones limb patterns
    &two64 - &one,
    (&two128 - &one) - (&two64 - &one),
    (&two64 - &one) << 64,
    // Montgomery-related: R = 2^192 mod p, R^2, R^-1
    bf::pow(&((&one << 192) % &p), &BigUint::from(2u32)),
    bf::inv(&((&one << 192) % &p)).unwrap(),
    &p - BigUint::from(12451u32),
    &p - BigUint::from(12452u32),
  ];
  // elements whose INTERNAL (Montgomery) limbs are boundary values: m * R^-1 with
  // R = 2^192 and m on the integer lattice (incl. m and m + 2^128 with equal low limbs)
  {
    let rinv = bf::inv(&((&one << 192) % &p)).unwrap();
    let ms: Vec<BigUint> = vec![
      BigUint::from(1u32), BigUint::from(2u32), BigUint::from(3u32), BigUint::from(12449u32), BigUint::from(12450u32),
      &two64 - &one, two64.clone(), &two128 - &one, two128.clone(),
      &two128 + &one, &two128 + BigUint::from(2u32), &two128 + BigUint::from(3u32), &two128 + BigUint::from(12449u32), &two128 + BigUint::from(12450u32),
      (&one << 127), (&one << 127) + &one,
    ];
    for m in ms {
      v.push(bf::mul(&m, &rinv));
    }
  }
  for b in [1u32, 31, 32, 33, 62, 65, 95, 96, 97, 126] {
    v.push(&one << b);
    v.push((&one << b) - &one);
  }
  // values whose double / sum wraps exactly at p
  v.push((&p >> 1) + BigUint::from(7u32));
  v.push(&p - (&one << 64));
  v.push(&p - (&one << 127));
  v.sort();
  v.dedup();
  v.retain(|x| x < &p);
  v
}

fn mismatch(
  rec: &mut Rec,
  op: &str,
  a: &BigUint,
  b: Option<&BigUint>,
  got: String,
  want: String,
) {
  rec.violation(
    &format!("arith:{}", op),
    format!(
      "Fp {} disagrees with big-integer arithmetic: a={} b={:?} got={} want={}",
      op, a, b, got, want
    ),
    json!({"kind":"arith","op":op,"a":a.to_string(),"b":b.map(|x|x.to_string()),"got":got,"want":want}),
  );
}

fn check_binary(rec: &mut Rec, a: &BigUint, b: &BigUint) {
  let (fa, fb) = match (to_fp(a), to_fp(b)) {
    (Some(x), Some(y)) => (x, y),
    _ => {
      rec.violation(
        "encoding:canonical-rejected",
        format!("from_repr rejected canonical operand {} or {}", a, b),
        json!({"kind":"from_repr_reject","a":a.to_string(),"b":b.to_string()}),
      );
      return;
    }
  };
  let cases: [(&str, Fp, BigUint); 3] = [
    ("add", fa + fb, bf::add(a, b)),
    ("sub", fa - fb, bf::sub(a, b)),
    ("mul", fa * fb, bf::mul(a, b)),
  ];
  for (op, got, want) in cases.iter() {
    rec.ev(op);
    if &of_fp(got) != want {
      mismatch(rec, op, a, Some(b), of_fp(got).to_string(), want.to_string());
    }
  }
  // assigning and by-reference forms
  let mut t = fa;
  t += fb;
  let mut u = fa;
  u -= &fb;
  let mut w = fa;
  w *= fb;
  rec.evn("assign_ops", 3);
  if of_fp(&t) != bf::add(a, b) {
    mismatch(rec, "add_assign", a, Some(b), of_fp(&t).to_string(), bf::add(a, b).to_string());
  }
  if of_fp(&u) != bf::sub(a, b) {
    mismatch(rec, "sub_assign", a, Some(b), of_fp(&u).to_string(), bf::sub(a, b).to_string());
  }
  if of_fp(&w) != bf::mul(a, b) {
    mismatch(rec, "mul_assign", a, Some(b), of_fp(&w).to_string(), bf::mul(a, b).to_string());
  }
  // iterator forms
  let s: Fp = [fa, fb, fa].iter().sum();
  let pr: Fp = [fa, fb, fb].iter().product();
  rec.evn("iter_ops", 2);
  let ws = bf::add(&bf::add(a, b), a);
  let wp = bf::mul(&bf::mul(a, b), b);
  if of_fp(&s) != ws {
    mismatch(rec, "sum", a, Some(b), of_fp(&s).to_string(), ws.to_string());
  }
  if of_fp(&pr) != wp {
    mismatch(rec, "product", a, Some(b), of_fp(&pr).to_string(), wp.to_string());
  }
  // the same pure operation called in the order a, b, a on one thread must not
  // depend on what was computed before (caches keyed on part of an element)
  rec.evn("invert_sequence", 3);
  for (k, x) in [a, b, a].iter().enumerate() {
    let f = if k == 1 { fb } else { fa };
    let got: Option<Fp> = f.invert().into();
    let want = bf::inv(x);
    if got.map(|g| of_fp(&g)) != want {
      mismatch(rec, "invert(sequence a,b,a)", a, Some(b), format!("{:?}", got.map(|g| of_fp(&g))), format!("{:?}", want));
      break;
    }
  }
  // equality
  rec.ev("eq");
  if (fa == fb) != (a == b) {
    mismatch(rec, "eq", a, Some(b), (fa == fb).to_string(), (a == b).to_string());
  }
  // sqrt_ratio
  rec.ev("sqrt_ratio");
  let (ok, r) = Fp::sqrt_ratio(&fa, &fb);
  let ok: bool = ok.into();
  let r = of_fp(&r);
  if a.is_zero() {
    if !(ok && r.is_zero()) {
      mismatch(rec, "sqrt_ratio(num=0)", a, Some(b), format!("({},{})", ok, r), "(true,0)".into());
    }
  } else if b.is_zero() {
    if ok || !r.is_zero() {
      mismatch(rec, "sqrt_ratio(div=0)", a, Some(b), format!("({},{})", ok, r), "(false,0)".into());
    }
  } else {
    let q = bf::mul(a, &bf::inv(b).unwrap());
    let r2 = bf::mul(&r, &r);
    if bf::is_qr(&q) {
      if !ok || r2 != q {
        mismatch(rec, "sqrt_ratio(square)", a, Some(b), format!("({},{})", ok, r), format!("(true, root of {})", q));
      }
    } else {
      // (false, sqrt(G*q)) for some non-square G: r^2/q must be a non-square
      let g = bf::mul(&r2, &bf::inv(&q).unwrap());
      if ok || r.is_zero() || bf::is_qr(&g) {
        mismatch(rec, "sqrt_ratio(nonsquare)", a, Some(b), format!("({},{})", ok, r), "(false, sqrt(G*num/div)) with G a non-square".into());
      }
    }
  }
}

fn limbs_le(e: &BigUint) -> Vec<u64> {
  let mut b = e.to_bytes_le();
  while b.len() % 8 != 0 {
    b.push(0);
  }
  b.chunks(8)
    .map(|c| u64::from_le_bytes([c[0], c[1], c[2], c[3], c[4], c[5], c[6], c[7]]))
    .collect()
}

fn check_unary(rec: &mut Rec, a: &BigUint, exps: &[BigUint]) {
  let fa = match to_fp(a) {
    Some(x) => x,
    None => {
      rec.violation(
        "encoding:canonical-rejected",
        format!("from_repr rejected canonical operand {}", a),
        json!({"kind":"from_repr_reject","a":a.to_string()}),
      );
      return;
    }
  };
  let two = BigUint::from(2u32);
  let un: [(&str, Fp, BigUint); 4] = [
    ("neg", -fa, bf::neg(a)),
    ("double", fa.double(), bf::mul(a, &two)),
    ("square", fa.square(), bf::mul(a, a)),
    ("cube", fa.cube(), bf::mul(&bf::mul(a, a), a)),
  ];
  for (op, got, want) in un.iter() {
    rec.ev(op);
    if &of_fp(got) != want {
      mismatch(rec, op, a, None, of_fp(got).to_string(), want.to_string());
    }
  }
  // invert
  rec.ev("invert");
  let iv: Option<Fp> = fa.invert().into();
  match (iv, bf::inv(a)) {
    (None, None) => {}
    (Some(g), Some(w)) if of_fp(&g) == w => {}
    (g, w) => mismatch(rec, "invert", a, None, format!("{:?}", g.map(|x| of_fp(&x))), format!("{:?}", w)),
  }
  // sqrt
  rec.ev("sqrt");
  let sq: Option<Fp> = fa.sqrt().into();
  if a.is_zero() {
    if sq.map(|x| of_fp(&x)) != Some(BigUint::zero()) {
      mismatch(rec, "sqrt(0)", a, None, format!("{:?}", sq.map(|x| of_fp(&x))), "Some(0)".into());
    }
  } else if bf::is_qr(a) {
    match sq {
      Some(r) if bf::mul(&of_fp(&r), &of_fp(&r)) == *a => {}
      g => mismatch(rec, "sqrt(residue)", a, None, format!("{:?}", g.map(|x| of_fp(&x))), "a root".into()),
    }
  } else if let Some(r) = sq {
    mismatch(rec, "sqrt(non-residue)", a, None, of_fp(&r).to_string(), "None".into());
  }
  // predicates
  rec.evn("predicates", 3);
  let z: bool = fa.is_zero().into();
  if z != a.is_zero() || fa.is_zero_vartime() != a.is_zero() {
    mismatch(rec, "is_zero", a, None, z.to_string(), a.is_zero().to_string());
  }
  let odd: bool = fa.is_odd().into();
  let even: bool = fa.is_even().into();
  let want_odd = (a % &two).is_one();
  if odd != want_odd || even == want_odd {
    mismatch(rec, "is_odd", a, None, odd.to_string(), want_odd.to_string());
  }
  // exponentiation
  for e in exps {
    rec.ev("pow");
    let l = limbs_le(e);
    let g1 = fa.pow_vartime(&l);
    let g2 = fa.pow(&l);
    let w = bf::pow(a, e);
    if of_fp(&g1) != w {
      mismatch(rec, "pow_vartime", a, Some(e), of_fp(&g1).to_string(), w.to_string());
    }
    if of_fp(&g2) != w {
      mismatch(rec, "pow", a, Some(e), of_fp(&g2).to_string(), w.to_string());
    }
  }
  // alternative constructors agree with the byte decoding
  rec.ev("from_str");
  match Fp::from_str_vartime(&a.to_string()) {
    Some(f) if f == fa => {}
    g => mismatch(rec, "from_str_vartime", a, None, format!("{:?}", g.map(|x| of_fp(&x))), a.to_string()),
  }
  if a < &(BigUint::one() << 128) {
    rec.ev("from_u128");
    let mut b16 = [0u8; 16];
    b16.copy_from_slice(&bf::to_le24(a)[..16]);
    let f = Fp::from_u128(u128::from_le_bytes(b16));
    if f != fa {
      mismatch(rec, "from_u128", a, None, of_fp(&f).to_string(), a.to_string());
    }
  }
  if a < &(BigUint::one() << 64) {
    rec.ev("from_u64");
    let mut b8 = [0u8; 8];
    b8.copy_from_slice(&bf::to_le24(a)[..8]);
    let f = Fp::from(u64::from_le_bytes(b8));
    if f != fa {
      mismatch(rec, "from_u64", a, None, of_fp(&f).to_string(), a.to_string());
    }
  }
  // canonical bytes through the Vec<u8> conversion
  rec.ev("vec_from_fp");
  let vb: Vec<u8> = Vec::from(fa);
  if vb != bf::to_le24(a).to_vec() {
    mismatch(rec, "Vec<u8>::from(Fp)", a, None, hex(&vb), hex(&bf::to_le24(a)));
  }
}

fn check_decode(rec: &mut Rec, bytes: &[u8; 24]) {
  let v = bf::from_le(bytes);
  let canonical = v < bf::p();
  let got: Option<Fp> = Fp::from_repr(FpRepr(*bytes)).into();
  let got2: Option<Fp> = Fp::from_repr_vartime(FpRepr(*bytes));
  rec.ev(if canonical { "decode_canonical" } else { "decode_noncanonical" });
  if got.is_some() != got2.is_some() {
    rec.violation(
      "encoding:from_repr-vs-vartime",
      format!("from_repr and from_repr_vartime disagree on {}", hex(bytes)),
      json!({"kind":"decode","bytes":hex(bytes)}),
    );
  }
  // the same 24 bytes as the x and as a y coordinate of a share on the wire:
  // the one place where users hand field-element encodings to the crate
  {
    use std::convert::TryFrom;
    let mut one = [0u8; 24];
    one[0] = 1;
    for slot in 0..2 {
      let mut enc = Vec::with_capacity(48);
      if slot == 0 {
        enc.extend_from_slice(bytes);
        enc.extend_from_slice(&one);
      } else {
        enc.extend_from_slice(&one);
        enc.extend_from_slice(bytes);
      }
      rec.ev("decode_via_share");
      match star_sharks::Share::try_from(&enc[..]) {
        Ok(s) => {
          let back: Vec<u8> = Vec::from(&s);
          if !canonical {
            rec.violation(
              "encoding:noncanonical-accepted-in-share",
              format!("a share whose {} coordinate encodes {} >= p was accepted (decodes to {})", if slot == 0 { "x" } else { "y" }, v, back.get(24 * slot..24 * slot + 24).map(hex).unwrap_or_else(|| format!("a share of {} bytes: the element was dropped", back.len()))),
              json!({"kind":"share-decode","bytes":hex(bytes),"slot":slot}),
            );
          } else if back != enc {
            rec.violation("encoding:share-roundtrip", format!("share decode/encode changed the canonical element {}", hex(bytes)), json!({"bytes":hex(bytes),"slot":slot}));
          }
        }
        Err(_) => {
          if canonical {
            rec.violation("encoding:canonical-rejected-in-share", format!("a share with the canonical element {} was rejected", hex(bytes)), json!({"bytes":hex(bytes),"slot":slot}));
          }
        }
      }
    }
  }
  // ... and as an element of a secret handed to the dealer (first and last chunk)
  {
    use rand_chacha::rand_core::SeedableRng;
    let mut drng = rand_chacha::ChaCha8Rng::seed_from_u64(7);
    let mut one = [0u8; 24];
    one[0] = 1;
    for slot in 0..2 {
      let mut secret = Vec::with_capacity(48);
      if slot == 0 {
        secret.extend_from_slice(bytes);
        secret.extend_from_slice(&one);
      } else {
        secret.extend_from_slice(&one);
        secret.extend_from_slice(bytes);
      }
      rec.ev("decode_via_dealer");
      let sh = star_sharks::Sharks(1);
      let res = sh.dealer_rng(&secret, &mut drng);
      match res {
        Ok(mut ev) => {
          if !canonical {
            rec.violation(
              "encoding:noncanonical-accepted-by-dealer",
              format!("a secret whose element {} encodes {} >= p was accepted by the dealer", slot, v),
              json!({"kind":"dealer","bytes":hex(bytes),"slot":slot}),
            );
          } else if let Some(s) = ev.next() {
            // threshold 1: the share values are the secret's elements
            if s.y.len() != 2 || s.y[slot].to_repr().as_ref() != &bytes[..] {
              rec.violation("encoding:dealer-value", format!("the dealer altered the canonical element {}", hex(bytes)), json!({"bytes":hex(bytes),"slot":slot}));
            }
          }
        }
        Err(_) => {
          if canonical {
            rec.violation("encoding:canonical-rejected-by-dealer", format!("the dealer refused the canonical element {}", hex(bytes)), json!({"bytes":hex(bytes),"slot":slot}));
          }
        }
      }
    }
  }
  match (canonical, got) {
    (true, Some(f)) => {
      let back = f.to_repr();
      if back.as_ref() != &bytes[..] {
        rec.violation(
          "encoding:roundtrip",
          format!("to_repr(from_repr(b)) != b for {}: {}", hex(bytes), hex(back.as_ref())),
          json!({"kind":"decode","bytes":hex(bytes),"back":hex(back.as_ref())}),
        );
      }
      // and the value is the integer (checked through an independent constructor)
      if Fp::from_str_vartime(&v.to_string()) != Some(f) {
        rec.violation(
          "encoding:value",
          format!("from_repr({}) is not the integer {}", hex(bytes), v),
          json!({"kind":"decode","bytes":hex(bytes)}),
        );
      }
    }
    (true, None) => rec.violation(
      "encoding:canonical-rejected",
      format!("canonical encoding {} rejected", hex(bytes)),
      json!({"kind":"decode","bytes":hex(bytes)}),
    ),
    (false, Some(f)) => rec.violation(
      "encoding:noncanonical-accepted",
      format!("encoding of {} >= p accepted as {}", v, of_fp(&f)),
      json!({"kind":"decode","bytes":hex(bytes)}),
    ),
    (false, None) => {}
  }
}

fn check_constants(rec: &mut Rec) {
  let p = bf::p();
  let one = BigUint::one();
  let mut bad = |rec: &mut Rec, name: &str, what: String| {
    rec.violation(
      &format!("const:{}", name),
      format!("published constant {}: {}", name, what),
      json!({"kind":"constant","name":name,"what":what}),
    );
  };
  rec.ev("const_checks");
  // MODULUS string (hex with 0x, or decimal)
  let ms = Fp::MODULUS;
  let parsed = if let Some(h) = ms.strip_prefix("0x") {
    BigUint::parse_bytes(h.as_bytes(), 16)
  } else {
    BigUint::parse_bytes(ms.as_bytes(), 10)
  };
  if parsed.as_ref() != Some(&p) {
    bad(rec, "MODULUS", format!("{} does not denote 2^128+12451", ms));
  }
  if !bf::is_probable_prime(&p) {
    bad(rec, "MODULUS", "2^128+12451 failed Miller-Rabin (monitor self-check)".into());
  }
  // -1 + 1 == 0 and char: p * x == 0 relation through repeated doubling
  match to_fp(&(&p - &one)) {
    Some(m1) => {
      if !bool::from((m1 + Fp::ONE).is_zero()) {
        bad(rec, "MODULUS", "(p-1)+1 != 0 in Fp".into());
      }
    }
    None => bad(rec, "MODULUS", "the encoding of p-1 is rejected as non-canonical".into()),
  }
  if Fp::NUM_BITS != 129 {
    bad(rec, "NUM_BITS", format!("{} != 129", Fp::NUM_BITS));
  }
  if Fp::CAPACITY != 128 {
    bad(rec, "CAPACITY", format!("{} != 128", Fp::CAPACITY));
  }
  if of_fp(&Fp::ZERO) != BigUint::zero() || of_fp(&Fp::ONE) != one {
    bad(rec, "ZERO/ONE", "wrong value".into());
  }
  if bf::mul(&of_fp(&Fp::TWO_INV), &BigUint::from(2u32)) != one {
    bad(rec, "TWO_INV", format!("2*{} != 1", of_fp(&Fp::TWO_INV)));
  }
  // S = 2-adicity of p-1
  let pm1 = &p - &one;
  let mut s = 0u32;
  let mut t = pm1.clone();
  while (&t % 2u32).is_zero() {
    t >>= 1;
    s += 1;
  }
  if Fp::S != s {
    bad(rec, "S", format!("{} != 2-adicity {}", Fp::S, s));
  }
  // t is the odd cofactor; the monitor needs its factorisation to decide
  // orders: it proves t prime itself.
  let t_prime = bf::is_probable_prime(&t);
  rec.note("c07_cofactor_prime", json!(t_prime));
  let g = of_fp(&Fp::MULTIPLICATIVE_GENERATOR);
  rec.note("c07_generator", json!(g.to_string()));
  if t_prime {
    // order of g is exactly p-1 = 2^s * t  <=>  g^((p-1)/2) != 1 and g^((p-1)/t) != 1
    let e_half = &pm1 >> 1;
    let e_t = &pm1 / &t;
    if g.is_zero() || bf::pow(&g, &pm1) != one {
      bad(rec, "MULTIPLICATIVE_GENERATOR", format!("{}^(p-1) != 1", g));
    } else if bf::pow(&g, &e_half) == one {
      bad(
        rec,
        "MULTIPLICATIVE_GENERATOR",
        format!("{} is a quadratic residue: order divides (p-1)/2, not a generator / not a non-residue", g),
      );
    } else if bf::pow(&g, &e_t) == one {
      bad(rec, "MULTIPLICATIVE_GENERATOR", format!("{} has order dividing 2^S", g));
    }
  } else {
    rec.note("c07_generator_order", json!("undecided: cofactor of p-1 not prime"));
    if bf::is_qr(&g) {
      bad(rec, "MULTIPLICATIVE_GENERATOR", format!("{} is a quadratic residue", g));
    }
  }
  // ROOT_OF_UNITY: primitive 2^S-th root of unity
  let r = of_fp(&Fp::ROOT_OF_UNITY);
  let two_s = &one << (s as usize);
  if bf::pow(&r, &two_s) != one {
    bad(rec, "ROOT_OF_UNITY", format!("{}^(2^S) != 1", r));
  } else if s > 0 && bf::pow(&r, &(&two_s >> 1)) == one {
    bad(rec, "ROOT_OF_UNITY", format!("{} is not a primitive 2^S-th root of unity (order < 2^S)", r));
  }
  let ri = of_fp(&Fp::ROOT_OF_UNITY_INV);
  if bf::mul(&r, &ri) != one {
    bad(rec, "ROOT_OF_UNITY_INV", format!("{} * {} != 1", r, ri));
  }
  // DELTA generates the subgroup of order t
  let d = of_fp(&Fp::DELTA);
  if bf::pow(&d, &t) != one {
    bad(rec, "DELTA", format!("{}^t != 1", d));
  } else if t_prime && d == one && t > one {
    bad(rec, "DELTA", "DELTA = 1 does not generate the t-order subgroup".into());
  }
  rec.sample(json!({"constants":{"S":Fp::S,"generator":g.to_string(),"root_of_unity":r.to_string(),"delta":d.to_string(),"two_inv":of_fp(&Fp::TWO_INV).to_string()}}));
}

fn uniform_elem(rng: &mut impl Rng) -> BigUint {
  let p = bf::p();
  loop {
    let mut b = [0u8; 17];
    rng.fill(&mut b[..]);
    b[16] &= 1;
    let v = bf::from_le(&b);
    if v < p {
      return v;
    }
  }
}

/// the field's elements are told apart as integers, also by the code that interpolates over them:
/// two points of one line at x1 != x2 from the boundary lattice (incl. pairs congruent modulo 2^64 or
/// 2^128) recover the line's constant term, per big-integer Lagrange interpolation
fn interpolate_over_lattice(rec: &mut Rec, lat: &[BigUint], row: usize, rng: &mut impl Rng) {
  use std::convert::TryFrom;
  let x1 = &lat[row];
  if x1.is_zero() {
    return;
  }
  let s = uniform_elem(rng);
  let a = uniform_elem(rng);
  let line = |x: &BigUint| -> BigUint { bf::add(&s, &bf::mul(&a, x)) };
  for x2 in lat.iter() {
    if x2.is_zero() || x2 == x1 {
      continue;
    }
    let pp = bf::p();
    if x1 >= &pp || x2 >= &pp {
      continue;
    }
    rec.ev("interpolate_lattice_pairs");
    let mut shares = Vec::new();
    for x in [x1, x2] {
      let mut enc = bf::to_le24(x).to_vec();
      enc.extend_from_slice(&bf::to_le24(&line(x)));
      if let Ok(sh) = star_sharks::Share::try_from(&enc[..]) {
        shares.push(sh);
      }
    }
    if shares.len() != 2 {
      continue;
    }
    let want = bf::to_le24(&s).to_vec();
    let got = star_sharks::Sharks(2).recover(&shares);
    if got.as_ref().ok() != Some(&want) {
      rec.violation(
        "arith:interpolation-over-boundary-points",
        format!("two points of a line at x1 = {} and x2 = {} (distinct field elements) interpolate to {:?}, big-integer Lagrange gives {}", x1, x2, got.map(|b| hex(&b)), s),
        json!({"kind": "interpolate", "x1": x1.to_string(), "x2": x2.to_string(), "constant_term": s.to_string(), "slope": a.to_string()}),
      );
      return;
    }
  }
}

pub fn run(ctx: &Ctx) -> Rec {
  let lat = lattice();
  let p = bf::p();
  let one = BigUint::one();
  let exps: Vec<BigUint> = vec![
    BigUint::zero(),
    one.clone(),
    BigUint::from(2u32),
    &p - BigUint::from(2u32),
    &p - &one,
    p.clone(),
    (&one << 192) - &one,
    &one << 64,
    (&one << 128) + &one,
  ];
  let mut total = Rec::new();
  check_constants(&mut total);

  // exhaustive lattice x lattice, rows in parallel
  let nl = lat.len() as u64;
  let r = par_run(ctx, "lattice", nl, |rec, i, rng| {
    let a = &lat[i as usize];
    let mut ex = exps.clone();
    ex.push(uniform_elem(rng));
    check_unary(rec, a, &ex);
    rec.case(&("lat-unary", a.to_bytes_le()));
    for b in &lat {
      check_binary(rec, a, b);
      rec.case(&("lat-pair", a.to_bytes_le(), b.to_bytes_le()));
    }
    if i == 3 {
      rec.sample(json!({"lattice_row": a.to_string(), "pairs_with": lat.len()}));
    }
  });
  total.merge(r);
  total.merge(par_run(ctx, "interpolate-lattice", nl, |rec, i, rng| interpolate_over_lattice(rec, &lat, i as usize, rng)));
  total.note("lattice_size", json!(lat.len()));
  total.note("lattice_pairs_exhaustive", json!(lat.len() * lat.len()));

  // uniform operands (and lattice x uniform)
  let n = ctx.n(200_000, 20_000_000);
  let chunk = 1000u64;
  let r = par_run(ctx, "uniform", (n + chunk - 1) / chunk, |rec, ci, rng| {
    for k in 0..chunk {
      let a = if k % 8 == 0 { pick(rng, &lat).clone() } else { uniform_elem(rng) };
      let b = if k % 8 == 1 { pick(rng, &lat).clone() } else { uniform_elem(rng) };
      check_binary(rec, &a, &b);
      rec.case(&("uni-pair", a.to_bytes_le(), b.to_bytes_le()));
      if k % 16 == 0 {
        let e = if k % 32 == 0 { uniform_elem(rng) } else { BigUint::from(rng.gen::<u64>()) };
        check_unary(rec, &a, &[e]);
      } else if k % 4 == 0 {
        check_unary(rec, &a, &[]);
      }
      if ci == 0 && k < 2 {
        rec.sample(json!({"uniform_pair":[a.to_string(), b.to_string()]}));
      }
    }
  });
  total.merge(r);

  // encodings
  let nd = ctx.n(100_000, 5_000_000);
  let r = par_run(ctx, "decode", (nd + chunk - 1) / chunk, |rec, ci, rng| {
    let p = bf::p();
    for k in 0..chunk {
      let mut b = [0u8; 24];
      match k % 8 {
        0 => rng.fill(&mut b[..]), // uniform: almost surely >= p
        1 => b = bf::to_le24(&uniform_elem(rng)), // canonical
        2 => {
          // p + small
          let v = &p + BigUint::from(rng.gen_range(0u32..4));
          b = bf::to_le24(&v)
        }
        3 => {
          // canonical value + p (second encoding of the same residue)
          let v = uniform_elem(rng) + &p;
          b = bf::to_le24(&v)
        }
        4 => {
          // canonical with one high-limb bit set
          b = bf::to_le24(&uniform_elem(rng));
          let bit = rng.gen_range(129..192);
          b[bit / 8] |= 1 << (bit % 8);
        }
        5 => {
          b = bf::to_le24(pick(rng, &lat));
        }
        6 => {
          // lattice value + k*p while it fits 192 bits
          let mult = BigUint::from(rng.gen_range(1u64..u64::MAX >> 2));
          let v = pick(rng, &lat) + &p * mult;
          if v < (BigUint::one() << 192) {
            b = bf::to_le24(&v)
          } else {
            b = [0xff; 24]
          }
        }
        _ => {
          // between 2^128 and p, and just above
          let off = rng.gen_range(0u32..25000);
          let v = (BigUint::one() << 128) + BigUint::from(off);
          b = bf::to_le24(&v)
        }
      }
      check_decode(rec, &b);
      rec.case(&("dec", b));
      if ci == 0 && k < 3 {
        rec.sample(json!({"decode_input": hex(&b)}));
      }
    }
  });
  total.merge(r);
  // fixed extreme strings
  for b in [[0u8; 24], [0xffu8; 24], bf::to_le24(&bf::p()), bf::to_le24(&(bf::p() + BigUint::one())), bf::to_le24(&(bf::p() - BigUint::one())), bf::to_le24(&(bf::p() + bf::p()))] {
    check_decode(&mut total, &b);
  }
  // field arithmetic composed: the public evaluator on polynomials of different
  // degrees against big-integer Horner evaluation
  let r = par_run(ctx, "evaluator", ctx.n(300, 10_000), |rec, _i, rng| {
    let k = rng.gen_range(1..4usize);
    let polys_big: Vec<Vec<BigUint>> = (0..k).map(|_| (0..rng.gen_range(1..7usize)).map(|_| if rng.gen_bool(0.3) { pick(rng, &lat).clone() } else { uniform_elem(rng) }).collect()).collect();
    let polys: Vec<Vec<Fp>> = polys_big.iter().map(|p| p.iter().map(|c| to_fp(c).unwrap()).collect()).collect();
    let mut ev = star_sharks::get_evaluator(polys);
    for _ in 0..3 {
      let s = ev.next().unwrap();
      for (i, p) in polys_big.iter().enumerate() {
        rec.ev("evaluator_horner");
        if bf::horner_high_first(p, &of_fp(&s.x)) != of_fp(&s.y[i]) {
          rec.violation("arith:evaluator", format!("evaluation of polynomial {} (lengths {:?}) at x={} disagrees with big-integer arithmetic", i, polys_big.iter().map(|p| p.len()).collect::<Vec<_>>(), of_fp(&s.x)), json!({"kind":"evaluator"}));
          return;
        }
      }
    }
  });
  total.merge(r);
  // Fp::random stays in range and round-trips (sanity of the sampler the dealer uses)
  let r = par_run(ctx, "random", 16, |rec, _i, rng| {
    for _ in 0..2000 {
      let f = Fp::random(&mut *rng);
      rec.ev("fp_random");
      if of_fp(&f) >= bf::p() {
        rec.violation("random:out-of-range", "Fp::random produced a non-canonical element".into(), json!({}));
      }
    }
  });
  total.merge(r);
  total
}
