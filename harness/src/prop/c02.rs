//! C02 — fewer than t distinct shares never yield key or message.
//! M1 attack collections on the recovery interface (+ explicit attacker
//! interpolation), M2 clear-text scanner, M3 polynomial-shape monitor.

use crate::bigfield as bf;
use crate::common::*;
use crate::gen::{content, Content};
use crate::layout::{AdssShare, Report};
use num_bigint::BigUint;
use num_traits::{One, Zero};
use rand::seq::SliceRandom;
use rand::Rng;
use rand_chacha::ChaCha20Rng;
use serde_json::json;
use sta_rs::{derive_ske_key, share_recover, strobe_digest, AssociatedData, Message, MessageGenerator, Share, SingleMeasurement};
use std::collections::{HashMap, HashSet};
use std::sync::Mutex;

struct SharingS {
  t: u32,
  measurement: Vec<u8>,
  epoch: Vec<u8>,
  rnd: [u8; 32],
  reports: Vec<Vec<u8>>,  // encoded reports
  shares: Vec<Vec<u8>>,   // encoded shares (inner of the report)
  parsed: Vec<AdssShare>, // layout view
  auxes: Vec<Option<Vec<u8>>>,
  seed: Option<Vec<u8>>, // r0 from a full-threshold recovery (positive control)
}

fn make(rng: &mut ChaCha20Rng, m: &[u8], e: &[u8], t: u32, n: usize, aux_len: usize) -> Result<SharingS, String> {
  let mut s = SharingS {
    t,
    measurement: m.to_vec(),
    epoch: e.to_vec(),
    rnd: [0u8; 32],
    reports: vec![],
    shares: vec![],
    parsed: vec![],
    auxes: vec![],
    seed: None,
  };
  for i in 0..n {
    let mg = MessageGenerator::new(SingleMeasurement::new(m), t, e);
    let mut rnd = [0u8; 32];
    mg.sample_local_randomness(&mut rnd);
    s.rnd = rnd;
    let a = if i % 3 == 2 { None } else { Some(rand_bytes(rng, aux_len)) };
    let msg = Message::generate(&mg, &rnd, a.as_ref().map(|x| AssociatedData::new(x))).map_err(|e| e.to_string())?;
    let b = msg.to_bytes();
    let r = Report::decode(&b).ok_or("layout: report")?;
    s.shares.push(msg.share.to_bytes());
    s.parsed.push(r.share);
    s.reports.push(b);
    s.auxes.push(a);
  }
  // positive control: t distinct honest shares recover (O(t^2) field inversions:
  // above 600 the control is replaced by a marker and the monitor only uses the
  // parsed share points)
  if t > 600 {
    s.seed = Some(vec![0xEE; 5]);
    return Ok(s);
  }
  let full: Option<Vec<Share>> = s.shares[..t as usize].iter().map(|b| Share::from_bytes(b)).collect();
  if let Some(f) = full {
    if let Ok(c) = share_recover(&f) {
      s.seed = Some(c.get_message());
    }
  }
  Ok(s)
}

fn set_threshold(enc: &mut Vec<u8>, v: u32) {
  enc[..4].copy_from_slice(&v.to_le_bytes());
}

/// (sharing id, share index, forged threshold)
type Item = (usize, usize, Option<u32>);

fn run_collection(rec: &mut Rec, sh: &[&SharingS], coll: &[Item], what: &str, case_idx: u64) {
  let bytes: Vec<Vec<u8>> = coll
    .iter()
    .map(|(s, i, f)| {
      let mut b = sh[*s].shares[*i].clone();
      if let Some(v) = f {
        set_threshold(&mut b, *v);
      }
      b
    })
    .collect();
  rec.evals += 1;
  rec.case(&(what.to_string(), sh[0].t, coll.len()));
  rec.ev("attack_collection");
  let out = quiet(rec, || {
    let shares: Option<Vec<Share>> = bytes.iter().map(|b| Share::from_bytes(b)).collect();
    match shares {
      None => Err("decode".to_string()),
      Some(s) => share_recover(&s).map(|c| c.get_message()).map_err(|e| e.to_string()),
    }
  });
  // how many distinct points of each sharing does the collection hold?
  let mut distinct: HashMap<usize, HashSet<usize>> = HashMap::new();
  for (s, i, _) in coll {
    distinct.entry(*s).or_default().insert(*i);
  }
  let reaches = |s: usize| distinct.get(&s).map(|d| d.len()).unwrap_or(0) >= sh[s].t as usize;
  let first = coll[0].0;
  let replay = || {
    json!({"case": case_idx, "what": what, "collection": coll.iter().map(|(s,i,f)| json!([s,i,f])).collect::<Vec<_>>(),
           "true_thresholds": sh.iter().map(|s| s.t).collect::<Vec<_>>(),
           "shares_hex": if bytes.len() <= 24 { bytes.iter().map(|b| hex(b)).collect::<Vec<_>>() } else { vec![] }})
  };
  match out {
    Some(Ok(m)) => {
      let anyone = (0..sh.len()).any(reaches);
      if !anyone {
        rec.violation(
          &format!("recovered-below-threshold:{}", what),
          format!(
            "recovery returned {} although no sharing in the collection holds its threshold of distinct shares ({}; distinct per sharing {:?}, thresholds {:?})",
            hex_short(&m),
            what,
            (0..sh.len()).map(|s| distinct.get(&s).map(|d| d.len()).unwrap_or(0)).collect::<Vec<_>>(),
            sh.iter().map(|s| s.t).collect::<Vec<_>>()
          ),
          replay(),
        );
      } else if !(reaches(first) && sh[first].seed.as_deref() == Some(&m[..])) {
        // never the secret of a sharing that is below its threshold, and only the first share's sharing
        let leaked = (0..sh.len()).find(|&s| !reaches(s) && sh[s].seed.as_deref() == Some(&m[..]));
        rec.violation(
          &format!("recovered-wrong-sharing:{}", what),
          format!("recovery returned {} (secret of a below-threshold sharing: {:?}); first share belongs to sharing {}", hex_short(&m), leaked, first),
          replay(),
        );
      } else {
        rec.ev("attack_ok_legitimate");
      }
    }
    Some(Err(_)) => rec.ev("attack_refused"),
    None => {}
  }
}

fn attacks(rec: &mut Rec, ctx: &Ctx, idx: u64, rng: &mut ChaCha20Rng) {
  let t: u32 = match idx % 20 {
    0 => *pick(rng, &[32u32, 48, 64]),
    1 | 2 => rng.gen_range(9..=20),
    _ => rng.gen_range(2..=8),
  };
  let t = if ctx.thorough() && idx % 200 == 7 { 128 } else { t };
  let near = idx % 5 == 4;
  let ml = if near { *pick(rng, &[66usize, 100, 130, 200]) } else { rng.gen_range(8..48) };
  let m = content(rng, ml, Content::Uniform);
  let e = rand_bytes_in(rng, 0..8);
  // every 7th case: target (x sep y, z) and foreign (x, y sep z) - the same bytes around a separator
  let shifted = idx % 7 == 3;
  let (m, e) = if shifted {
    let sep = *pick(rng, &[b'|', b',', b':', b'/', 0u8, b' ']);
    let a = |rng: &mut ChaCha20Rng| -> Vec<u8> { (0..rng.gen_range(2..8)).map(|_| rng.gen_range(b'a'..=b'z')).collect() };
    let (x, y, z) = (a(rng), a(rng), a(rng));
    let mut m1 = x.clone();
    m1.push(sep);
    m1.extend_from_slice(&y);
    (m1, z)
  } else {
    (m, e)
  };
  let near = near && !shifted;
  let ml = m.len();
  let tb = if shifted || rng.gen_bool(0.5) { t } else { rng.gen_range(2..=8) };
  let td = if t > 2 { t - 1 } else { t + 1 };
  rec.evals += 1;
  let mk = |rng: &mut ChaCha20Rng, m: &[u8], e: &[u8], t: u32| make(rng, m, e, t, t as usize + 1, 12);
  // the "other measurement": unrelated, or (near) equal but for one byte beyond offset 64
  let m2 = if near {
    let mut v = m.clone();
    let pos = rng.gen_range(64..ml);
    v[pos] ^= 0x20;
    v
  } else {
    rand_bytes(rng, ml)
  };
  let mut e2 = e.clone();
  e2.push(7);
  // for the shifted case the "other measurement" sharing is (x, y sep z) under the shifted epoch
  let (m2, eb) = if shifted {
    let cut = m.iter().position(|b| !b.is_ascii_lowercase()).unwrap_or(1);
    let mut eb2 = m[cut + 1..].to_vec();
    eb2.push(m[cut]);
    eb2.extend_from_slice(&e);
    (m[..cut].to_vec(), eb2)
  } else {
    (m2, e.clone())
  };
  let all = (mk(rng, &m, &e, t), mk(rng, &m2, &eb, tb), mk(rng, &m, &e2, t), mk(rng, &m, &e, td));
  let (a, b, c, d) = match all {
    (Ok(a), Ok(b), Ok(c), Ok(d)) => (a, b, c, d),
    _ => {
      rec.violation("generate-failed", "honest generation failed".into(), json!({"t": t}));
      return;
    }
  };
  let sh = [&a, &b, &c, &d];
  for s in sh.iter() {
    rec.control("t_honest_shares_recover", s.seed.is_some());
  }
  if sh.iter().any(|s| s.seed.is_none()) {
    return;
  }
  rec.case(&("attack", t, tb, td));
  let tu = t as usize;
  let big = t > 20;
  let ks: Vec<usize> = if big { vec![tu - 1] } else { (1..tu).collect() };
  for &k in &ks {
    // 1. repeats padding the count to >= t
    let mut coll: Vec<Item> = (0..k).map(|i| (0usize, i, None)).collect();
    while coll.len() < tu + 1 {
      let d = coll[rng.gen_range(0..k)];
      coll.insert(rng.gen_range(0..=coll.len()), d);
    }
    run_collection(rec, &sh, &coll, "padded-with-repeats", idx);
    // 2. foreign shares, each below its own threshold
    for (fs, name) in [(1usize, "other-measurement"), (2, "other-epoch"), (3, "other-threshold")] {
      let below = (sh[fs].t as usize - 1).max(1).min(sh[fs].shares.len());
      let foreign: Vec<Item> = (0..below).map(|i| (fs, i, None)).collect();
      let mine: Vec<Item> = (0..k).map(|i| (0usize, i, None)).collect();
      let mut c1 = mine.clone();
      c1.extend(foreign.clone());
      run_collection(rec, &sh, &c1, &format!("below:{}:target-first", name), idx);
      if !big {
        let mut c2 = foreign.clone();
        c2.extend(mine.clone());
        run_collection(rec, &sh, &c2, &format!("below:{}:foreign-first", name), idx);
        let mut c3 = c1.clone();
        c3.shuffle(rng);
        run_collection(rec, &sh, &c3, &format!("below:{}:interleaved", name), idx);
      }
      // 3. foreign sharing above its threshold: may return the foreign secret
      //    when it comes first, must never return the target's
      let above: Vec<Item> = (0..sh[fs].t as usize).map(|i| (fs, i, None)).collect();
      let mut c4 = mine.clone();
      c4.extend(above.clone());
      run_collection(rec, &sh, &c4, &format!("above:{}:target-first", name), idx);
      if !big {
        let mut c5 = above.clone();
        c5.extend(mine.clone());
        run_collection(rec, &sh, &c5, &format!("above:{}:foreign-first", name), idx);
      }
    }
    // 4. threshold rewritten at byte level, in the first share or in all
    let mut forged: Vec<u32> = vec![0, 1, k as u32, t - 1, t + 1, 1 << 31, u32::MAX];
    if !big {
      forged.extend(2..k as u32);
    }
    forged.sort();
    forged.dedup();
    for fv in forged {
      let mut c = (0..k).map(|i| (0usize, i, if i == 0 { Some(fv) } else { None })).collect::<Vec<Item>>();
      run_collection(rec, &sh, &c, "forged-threshold:first", idx);
      for it in c.iter_mut() {
        it.2 = Some(fv);
      }
      run_collection(rec, &sh, &c, "forged-threshold:all", idx);
      // forged + padded with repeats
      let mut cp = c.clone();
      while cp.len() < tu + 1 {
        let d = cp[rng.gen_range(0..k)];
        cp.push(d);
      }
      run_collection(rec, &sh, &cp, "forged-threshold:all+repeats", idx);
    }
  }
  // every sub-threshold subset for small t
  if tu <= 5 {
    for mask in 1u32..(1 << (tu + 1)) {
      if mask.count_ones() as usize >= tu {
        continue;
      }
      let coll: Vec<Item> = (0..tu + 1).filter(|i| mask & (1 << i) != 0).map(|i| (0usize, i, None)).collect();
      run_collection(rec, &sh, &coll, "sub-threshold-subset", idx);
    }
    rec.ev("exhaustive_subthreshold_enumerations");
  }

  // --- explicit attacker procedure: interpolate as if the degree were |subset|-1
  let pts: Vec<(BigUint, BigUint)> = a.parsed.iter().map(|p| (p.s.x_int(), p.s.y_int(0))).collect();
  let k_true = match bf::lagrange_at_zero(&pts[..tu]) {
    Some(k) => k,
    None => return,
  };
  let mut subsets: Vec<Vec<usize>> = Vec::new();
  if tu <= 6 {
    for mask in 1u32..(1 << (tu + 1)) {
      if (mask.count_ones() as usize) < tu {
        subsets.push((0..tu + 1).filter(|i| mask & (1 << i) != 0).collect());
      }
    }
  } else {
    for _ in 0..6 {
      let mut ix: Vec<usize> = (0..tu + 1).collect();
      ix.shuffle(rng);
      let k = if rng.gen_bool(0.6) { tu - 1 } else { rng.gen_range(1..tu) };
      ix.truncate(k);
      subsets.push(ix);
    }
  }
  for sub in subsets {
    rec.ev("attacker_interpolation");
    let sp: Vec<(BigUint, BigUint)> = sub.iter().map(|&i| pts[i].clone()).collect();
    if bf::lagrange_at_zero(&sp) == Some(k_true.clone()) {
      rec.violation(
        "attacker-interpolation-succeeds",
        format!("Lagrange interpolation over {} < t={} shares yields the sharing key: the polynomial has degree < t-1", sub.len(), t),
        json!({"case": idx, "t": t, "subset": sub, "points": sp.iter().map(|(x,y)| json!([x.to_string(), y.to_string()])).collect::<Vec<_>>() }),
      );
      break;
    }
  }
  if idx < 1 {
    rec.sample(json!({"target": {"t": t, "measurement": hex(&m), "epoch": hex(&e)}, "foreign_thresholds": [tb, t, td], "first_share": hex(&a.shares[0])}));
  }
}

// ---------------------------------------------------------------------------
// M2 scanner

fn scan(rec: &mut Rec, hay: &[u8], needles: &[(&str, Vec<u8>)], where_: &str, replay: serde_json::Value) {
  for (name, n) in needles {
    if n.len() < 8 {
      continue;
    }
    rec.ev("needle_scans");
    // long uniform needles (measurement, aux, messages): any 12-byte window counts
    let hit = if n.len() > 32 { find_any_window(hay, n, 12).map(|(_, o)| o) } else { find_sub(hay, n) };
    if let Some(off) = hit {
      rec.violation(
        &format!("cleartext:{}:{}", where_, name),
        format!("{} ({} bytes) occurs in the clear at byte offset {} of an encoded {}", name, n.len(), off, where_),
        json!({"needle": name, "needle_hex": hex(n), "offset": off, "encoded": hex_short(hay), "context": replay}),
      );
    }
  }
}

fn scanner(rec: &mut Rec, ctx: &Ctx, idx: u64, rng: &mut ChaCha20Rng) {
  let t = rng.gen_range(2..=12u32);
  let ml = *pick(rng, &[8usize, 16, 24, 32, 40, 170, 400]);
  let m = rand_bytes(rng, ml);
  let e = crate::gen::epoch(rng); // 0..64 bytes, incl. 16+ (derivations that fold the epoch into fixed-size blocks)
  let al = *pick(rng, &[8usize, 16, 33, 200, 400]);
  rec.evals += 1;
  rec.case(&("scan", t, ml, al));
  let s = match make(rng, &m, &e, t, t as usize + 1, al) {
    Ok(s) => s,
    Err(er) => {
      rec.violation("generate-failed", er, json!({}));
      return;
    }
  };
  rec.control("t_honest_shares_recover", s.seed.is_some());
  let r0 = match &s.seed {
    Some(x) => x.clone(),
    None => return,
  };
  let mut key = vec![0u8; 16];
  derive_ske_key(&r0, &e, &mut key);
  let pts: Vec<(BigUint, BigUint)> = s.parsed.iter().map(|p| (p.s.x_int(), p.s.y_int(0))).collect();
  let kint = bf::lagrange_at_zero(&pts[..t as usize]).unwrap_or_else(BigUint::zero);
  let k24 = bf::to_le24(&kint);
  let mut needles: Vec<(&str, Vec<u8>)> = vec![
    ("measurement", m.clone()),
    ("client-randomness", s.rnd.to_vec()),
    ("client-randomness[..16]", s.rnd[..16].to_vec()),
    ("key-seed-r0", r0.clone()),
    ("key-seed-r0[..16]", r0[..16].to_vec()),
    ("sharing-key-K", k24[..16].to_vec()),
    ("sharing-key-K-element", k24.to_vec()),
    ("encryption-key", key.clone()),
  ];
  // coins r1: only if the public derivation reproduces r0 (otherwise unavailable)
  let mut c0 = [0u8; 32];
  let ok = guarded(|| strobe_digest(&s.rnd, &[&[0u8]], "star_derive_randoms", &mut c0)).is_ok();
  if ok && c0.to_vec() == r0 {
    let mut r1 = [0u8; 32];
    strobe_digest(&s.rnd, &[&[1u8]], "star_derive_randoms", &mut r1);
    needles.push(("coins-r1", r1.to_vec()));
    needles.push(("coins-r1[..16]", r1[..16].to_vec()));
    rec.ev("coins_needle_available");
  } else {
    rec.ev("coins_needle_unavailable");
  }
  for (i, rep) in s.reports.iter().enumerate() {
    let mut nd = needles.clone();
    if let Some(a) = &s.auxes[i] {
      nd.push(("associated-data", a.clone()));
    }
    rec.ev("report_scanned");
    scan(rec, rep, &nd, "report", json!({"case": idx, "t": t, "report_index": i}));
    // positive control: the public tag is found at its documented offset
    if let Some((r, f)) = Report::decode_with_fields(rep) {
      let found = find_sub(rep, &r.tag);
      rec.control("scanner_finds_public_tag", r.tag.len() >= 8 && found.is_some() && found.unwrap() <= f.tag.start);
    } else {
      rec.control("scanner_finds_public_tag", false);
    }
  }
  // one level down: adss, message and coins supplied by the harness
  let mm = rand_bytes_pick(rng, &[16usize, 32, 100]);
  let rr = rand_bytes_pick(rng, &[16usize, 32, 64]);
  let mut enc = Vec::new();
  for _ in 0..t + 1 {
    match adss::Commune::new(t, mm.clone(), rr.clone(), None).share() {
      Ok(s) => enc.push(s.to_bytes()),
      Err(_) => return,
    }
  }
  let parsed: Option<Vec<AdssShare>> = enc.iter().map(|b| AdssShare::decode(b)).collect();
  if let Some(parsed) = parsed {
    let pts: Vec<(BigUint, BigUint)> = parsed.iter().filter(|p| !p.s.ys.is_empty()).map(|p| (p.s.x_int(), p.s.y_int(0))).collect();
    if pts.len() == parsed.len() {
      let kint = bf::lagrange_at_zero(&pts[..t as usize]).unwrap_or_else(BigUint::zero);
      let k24 = bf::to_le24(&kint);
      let nd: Vec<(&str, Vec<u8>)> = vec![
        ("adss-message", mm.clone()),
        ("adss-coins", rr.clone()),
        ("adss-message[..16]", mm[..16].to_vec()),
        ("adss-coins[..16]", rr[..16].to_vec()),
        ("adss-sharing-key", k24[..16].to_vec()),
      ];
      for b in &enc {
        rec.ev("adss_share_scanned");
        scan(rec, b, &nd, "adss-share", json!({"case": idx, "t": t}));
      }
      // the encrypted message and the encrypted coins must not share a keystream:
      // C ^ D == M ^ R over >= 16 bytes would let one field unmask the other
      let l = mm.len().min(rr.len());
      if l >= 16 {
        rec.ev("adss_field_relation_checks");
        let p0 = &parsed[0];
        let same = (0..l).all(|i| p0.c[i] ^ p0.d[i] == mm[i] ^ rr[i]);
        if same {
          rec.violation(
            "adss-fields-share-keystream",
            "in an encoded share C ^ D equals message ^ coins: both fields are encrypted under the same keystream".into(),
            json!({"case": idx, "share": hex_short(&enc[0])}),
          );
        }
      }
    }
  }
  if idx < 1 {
    rec.sample(json!({"scanned_report": hex(&s.reports[0]), "needles": needles.iter().map(|(n, b)| json!([n, hex(b)])).collect::<Vec<_>>()}));
  }
}

// ---------------------------------------------------------------------------
// M3 polynomial shape

type Triple = (Vec<u8>, Vec<u8>, u32);

fn shape(rec: &mut Rec, _ctx: &Ctx, idx: u64, rng: &mut ChaCha20Rng, global: &Mutex<HashMap<Vec<u8>, Triple>>) {
  // groups of 4 consecutive cases share a base (measurement, epoch, threshold)
  // and differ in exactly one component (or in everything for the 4th)
  let mut g = case_rng(_ctx, "shape-group", idx / 4);
  let bt: u32 = match (idx / 4) % 16 {
    0 => *pick(&mut g, &[33u32, 48, 63]),
    1 | 2 => g.gen_range(9..=32),
    _ => g.gen_range(2..=8),
  };
  let bm = rand_bytes_in(&mut g, 1..40);
  let be = rand_bytes_in(&mut g, 0..6);
  let (m, e, t) = match idx % 4 {
    0 => (bm, be, bt),
    1 => {
      let mut e2 = be.clone();
      e2.push(rng.gen());
      (bm, e2, bt)
    }
    2 => (bm, be, bt + 1),
    _ => (rand_bytes_in(rng, 1..40), be, bt),
  };
  rec.evals += 1;
  rec.case(&("shape", t, idx % 4));
  let s = match make(rng, &m, &e, t, t as usize + 2, 3) {
    Ok(s) => s,
    Err(er) => {
      rec.violation("generate-failed", er, json!({}));
      return;
    }
  };
  let tu = t as usize;
  let rp = |extra: serde_json::Value| json!({"case": idx, "t": t, "measurement": hex(&m), "epoch": hex(&e), "shares_hex": s.shares.iter().take(10).map(|b| hex(b)).collect::<Vec<_>>(), "extra": extra});
  for p in &s.parsed {
    if p.s.ys.len() != 1 {
      rec.violation("y-count", format!("inner Shamir share carries {} y-coordinates, expected exactly one", p.s.ys.len()), rp(json!({})));
      return;
    }
  }
  let pts: Vec<(BigUint, BigUint)> = s.parsed.iter().map(|p| (p.s.x_int(), p.s.y_int(0))).collect();
  let co = match bf::interpolate_coeffs(&pts[..tu]) {
    Some(c) => c,
    None => {
      rec.violation("share-point-repeat", "two clients used the same evaluation point".into(), rp(json!({})));
      return;
    }
  };
  rec.ev("polynomial_interpolated");
  for (x, y) in &pts[tu..] {
    if bf::eval_low_first(&co, x) != *y {
      rec.violation("not-one-polynomial", format!("shares of one measurement do not lie on one polynomial of degree {}", t - 1), rp(json!({})));
      return;
    }
  }
  if tu >= 2 && co[tu - 1].is_zero() {
    rec.violation("degree-too-low", format!("leading coefficient is zero: degree < t-1 = {}", t - 1), rp(json!({"coefficients": co.iter().map(|c| c.to_string()).collect::<Vec<_>>() })));
    return;
  }
  let mut seen: HashSet<Vec<u8>> = HashSet::new();
  for (d, c) in co.iter().enumerate().skip(1) {
    rec.ev("coefficient_checked");
    if c.is_zero() {
      rec.violation("zero-coefficient", format!("coefficient of x^{} is zero", d), rp(json!({})));
      return;
    }
    if !seen.insert(c.to_bytes_le()) {
      rec.violation("repeated-coefficient", format!("coefficient of x^{} repeats another coefficient of the same polynomial", d), rp(json!({})));
      return;
    }
    // keyed on the actual (measurement, epoch, threshold): two generated cases may
    // coincide (1-byte measurements, empty epochs), and then they ARE one sharing
    let me: Triple = (m.clone(), e.clone(), t);
    let mut g = global.lock().unwrap();
    if let Some(other) = g.insert(c.to_bytes_le(), me.clone()) {
      if other != me {
        rec.violation(
          "coefficient-shared-across-measurements",
          format!("coefficient of x^{} of the sharing of case {} also occurs in the sharing of a different (measurement, epoch, threshold)", d, idx),
          rp(json!({"other_measurement": hex(&other.0), "other_epoch": hex(&other.1), "other_threshold": other.2})),
        );
        return;
      }
    }
  }
  if co[0] >= (BigUint::one() << 128) {
    rec.violation("constant-term-range", "constant term >= 2^128: not a padded 16-byte key".into(), rp(json!({})));
  }
  // cross-check the model against the code's own interpolation
  let inner: Option<Vec<star_sharks::Share>> = s.parsed[..tu].iter().map(|p| {
    use std::convert::TryFrom;
    star_sharks::Share::try_from(&p.s.encode()[..]).ok()
  }).collect();
  if let Some(inner) = inner {
    if let Ok(k) = star_sharks::Sharks(t).recover(&inner) {
      if k != bf::to_le24(&co[0]).to_vec() {
        rec.violation("constant-term", "constant term differs from the code's own interpolation".into(), rp(json!({})));
      }
    }
  }
  if idx < 1 {
    rec.sample(json!({"t": t, "coefficients_low_first": co.iter().map(|c| c.to_string()).collect::<Vec<_>>() }));
  }
}

/// the sharing polynomial under a hostile random source: runs of 1 .. 100 candidates that the
/// field's rejection sampler refuses, in front of a coefficient. Degree must stay exactly t-1 and
/// every non-constant coefficient non-zero (a low-degree polynomial gives the key to < t shares)
fn hostile_source(rec: &mut Rec, ctx: &Ctx, idx: u64, rng: &mut ChaCha20Rng) {
  use crate::prop::c06::{rejection_run, RecRng};
  let t: u32 = rng.gen_range(2..=6);
  let mut secret = [0u8; 24];
  rng.fill(&mut secret[..16]);
  let mut r = RecRng::new(case_rng(ctx, "hostile-source-stream", idx));
  let len = *pick(rng, &[1usize, 5, 20, 21, 22, 23, 40, 64, 100]);
  let first = rng.gen_range(0..(t as usize - 1));
  rejection_run(&mut r, first, len);
  rec.evals += 1;
  rec.ev("hostile_source_sharings");
  rec.case(&("hostile-source", t, first, len));
  let ev = match star_sharks::Sharks(t).dealer_rng(&secret, &mut r) {
    Ok(e) => e,
    Err(_) => return,
  };
  let shares: Vec<star_sharks::Share> = ev.take(t as usize + 1).collect();
  let of = |f: &star_sharks::Fp| -> BigUint {
    use ff::PrimeField;
    bf::from_le(f.to_repr().as_ref())
  };
  let pts: Vec<(BigUint, BigUint)> = shares.iter().map(|s| (of(&s.x), of(&s.y[0]))).collect();
  let co = match bf::interpolate_coeffs(&pts[..t as usize]) {
    Some(c) => c,
    None => return,
  };
  let rp = json!({"t": t, "rejections_in_a_row": len, "before_coefficient_draw": first, "coefficients_low_first": co.iter().map(|c| c.to_string()).collect::<Vec<_>>() });
  if bf::eval_low_first(&co, &pts[t as usize].0) != pts[t as usize].1 {
    rec.violation("not-one-polynomial", "shares dealt under a hostile random source do not lie on one polynomial of degree t-1".into(), rp);
    return;
  }
  for (d, c) in co.iter().enumerate().skip(1) {
    rec.ev("coefficient_checked");
    if c.is_zero() {
      rec.violation(
        if d == t as usize - 1 { "degree-too-low" } else { "zero-coefficient" },
        format!("after {} refused candidates in a row the coefficient of x^{} is zero (threshold {})", len, d, t),
        rp,
      );
      return;
    }
  }
  // with a zero leading coefficient t-1 shares interpolate to the key: shown directly
  if t >= 3 {
    rec.ev("attacker_interpolation");
    if bf::lagrange_at_zero(&pts[..t as usize - 1]) == Some(co[0].clone()) {
      rec.violation("attacker-interpolation-succeeds", format!("t-1 = {} shares dealt under a hostile random source interpolate to the secret", t - 1), rp);
    }
  }
}

/// secrets of several field elements: every element has its OWN polynomial - no non-constant
/// coefficient occurs twice, and a single share does not give away the difference of two elements
fn multi_element(rec: &mut Rec, ctx: &Ctx, idx: u64, rng: &mut ChaCha20Rng) {
  use crate::prop::c06::RecRng;
  let t: u32 = rng.gen_range(2..=5);
  let k = rng.gen_range(2..=4usize);
  let mut secret = vec![0u8; 24 * k];
  for j in 0..k {
    rng.fill(&mut secret[24 * j..24 * j + 16]);
  }
  let mut r = RecRng::new(case_rng(ctx, "multi-element-stream", idx));
  rec.evals += 1;
  rec.ev("multi_element_sharings");
  rec.case(&("multi-element", t, k));
  let ev = match star_sharks::Sharks(t).dealer_rng(&secret, &mut r) {
    Ok(e) => e,
    Err(_) => return,
  };
  let shares: Vec<star_sharks::Share> = ev.take(t as usize).collect();
  let of = |f: &star_sharks::Fp| -> BigUint {
    use ff::PrimeField;
    bf::from_le(f.to_repr().as_ref())
  };
  if shares.iter().any(|s| s.y.len() != k) {
    return;
  }
  let mut seen: HashMap<Vec<u8>, usize> = HashMap::new();
  for j in 0..k {
    let pts: Vec<(BigUint, BigUint)> = shares.iter().map(|s| (of(&s.x), of(&s.y[j]))).collect();
    let co = match bf::interpolate_coeffs(&pts) {
      Some(c) => c,
      None => return,
    };
    for c in co.iter().skip(1) {
      rec.ev("coefficient_checked");
      if let Some(other) = seen.insert(c.to_bytes_le(), j) {
        if other != j {
          rec.violation(
            "coefficient-shared-across-elements",
            format!("the polynomials of elements {} and {} of one secret share a non-constant coefficient: one share reveals the difference of the two elements", other, j),
            json!({"t": t, "elements": k, "secret": hex(&secret), "first_share_x": of(&shares[0].x).to_string()}),
          );
          return;
        }
      }
    }
  }
  // t-1 genuine distinct shares padded with ONE share of another secret of a different element
  // count at a fresh point (any position): fewer than t shares of either secret -> recovery must
  // fail outright at the Shamir level too, it must not count the foreign share and drop it
  {
    let k2 = if k > 1 && rng.gen_bool(0.5) { k - 1 } else { k + rng.gen_range(1..=2usize) };
    let mut secret2 = vec![0u8; 24 * k2];
    for j in 0..k2 {
      rng.fill(&mut secret2[24 * j..24 * j + 16]);
    }
    let mut r2 = RecRng::new(case_rng(ctx, "multi-element-foreign-stream", idx));
    if let Ok(ev2) = star_sharks::Sharks(t).dealer_rng(&secret2, &mut r2) {
      let own_x: Vec<BigUint> = shares.iter().map(|s| of(&s.x)).collect();
      let foreign: Vec<star_sharks::Share> = ev2.take(t as usize + 3).filter(|s| !own_x.contains(&of(&s.x))).take(1).collect();
      if foreign.len() == 1 && foreign[0].y.len() == k2 {
        let tm1 = t as usize - 1;
        for pos in 0..=tm1 {
          let mut coll: Vec<star_sharks::Share> = shares[..tm1].to_vec();
          coll.insert(pos, foreign[0].clone());
          rec.ev("sub_threshold_padded_with_other_length_share");
          let got = quiet(rec, || star_sharks::Sharks(t).recover(&coll).map_err(|e| e.to_string()));
          if let Some(Ok(bytes)) = got {
            rec.violation(
              "shamir-recovers-below-threshold:padded-with-other-length-share",
              format!("Sharks({}).recover returned Ok({} bytes) from {} genuine shares and one share of another secret with {} instead of {} elements at position {}", t, bytes.len(), tm1, k2, k, pos),
              json!({"t": t, "elements": k, "foreign_elements": k2, "position": pos, "secret": hex(&secret)}),
            );
            return;
          }
        }
      }
    }
  }
  // the attack itself, on ONE share (t >= 2): y_i - y_j against s_i - s_j
  let s0 = &shares[0];
  for i in 0..k {
    for j in i + 1..k {
      let (si, sj) = (bf::from_le(&secret[24 * i..24 * i + 24]), bf::from_le(&secret[24 * j..24 * j + 24]));
      rec.ev("single_share_difference_attacks");
      if bf::sub(&of(&s0.y[i]), &of(&s0.y[j])) == bf::sub(&si, &sj) {
        rec.violation(
          "single-share-reveals-difference",
          format!("y_{} - y_{} of a single share equals the difference of the secret's elements {} and {} (threshold {})", i, j, i, j, t),
          json!({"t": t, "elements": k, "secret": hex(&secret)}),
        );
        return;
      }
    }
  }
}

/// thresholds beyond every 8-bit boundary: t-1 (and 255, 256) honest distinct
/// shares must not recover, and must not interpolate to the sharing key
fn large_threshold(rec: &mut Rec, ctx: &Ctx, idx: u64, rng: &mut ChaCha20Rng) {
  let ts: &[u32] = if ctx.thorough() { &[256, 257, 300, 511, 512, 513, 1000, 1024, 1025, 1100, 2049] } else { &[256, 257, 300, 513, 1025, 1100] };
  let t = ts[(idx as usize) % ts.len()];
  let m = rand_bytes_in(rng, 8..40);
  let e = rand_bytes_in(rng, 0..6);
  rec.evals += 1;
  rec.case(&("large-t", t, idx));
  let s = match make(rng, &m, &e, t, t as usize, 9) {
    Ok(s) => s,
    Err(er) => {
      rec.violation("generate-failed", er, json!({"t": t}));
      return;
    }
  };
  rec.control("t_honest_shares_recover", s.seed.is_some());
  if s.seed.is_none() {
    return;
  }
  let sh = [&s];
  let tu = t as usize;
  for k in [tu - 1, 255, 256, tu / 2] {
    if k >= tu || k == 0 || (tu > 600 && k > 300) {
      continue; // recovery attempts over > 300 shares cost O(k^2) inversions; the attacker below covers them
    }
    let coll: Vec<Item> = (0..k).map(|i| (0usize, i, None)).collect();
    run_collection(rec, &sh, &coll, "large-threshold:k-distinct-honest", idx);
  }
  let pts: Vec<(BigUint, BigUint)> = s.parsed.iter().map(|p| (p.s.x_int(), p.s.y_int(0))).collect();
  if let Some(k_true) = bf::lagrange_at_zero(&pts[..tu]) {
    for k in [tu - 1, 255, 256, 1024, 2048] {
      if k >= tu {
        continue;
      }
      rec.ev("attacker_interpolation");
      if bf::lagrange_at_zero(&pts[..k]) == Some(k_true.clone()) {
        rec.violation(
          "attacker-interpolation-succeeds",
          format!("Lagrange interpolation over {} < t={} shares yields the sharing key: the polynomial has degree < t-1", k, t),
          json!({"case": idx, "t": t, "points_used": k}),
        );
        break;
      }
    }
  }
}

pub fn run(ctx: &Ctx) -> Rec {
  let mut rec = par_run(ctx, "attacks", ctx.n(1200, 30_000), |rec, i, rng| attacks(rec, ctx, i, rng));
  rec.merge(par_run(ctx, "scanner", ctx.n(2000, 60_000), |rec, i, rng| scanner(rec, ctx, i, rng)));
  let global: Mutex<HashMap<Vec<u8>, Triple>> = Mutex::new(HashMap::new());
  // the shape stream includes deliberate neighbours: every 4 consecutive cases
  // share a measurement and differ in epoch or threshold only
  rec.merge(par_run(ctx, "shape", ctx.n(2400, 100_000), |rec, i, rng| shape(rec, ctx, i, rng, &global)));
  rec.merge(par_run(ctx, "large-threshold", ctx.n(6, 55), |rec, i, rng| large_threshold(rec, ctx, i, rng)));
  rec.merge(par_run(ctx, "hostile-source", ctx.n(600, 30_000), |rec, i, rng| hostile_source(rec, ctx, i, rng)));
  rec.merge(par_run(ctx, "multi-element", ctx.n(600, 30_000), |rec, i, rng| multi_element(rec, ctx, i, rng)));
  rec.note("global_coefficient_set", json!(global.lock().unwrap().len()));
  // the coefficients are draws from a random source: over the thousands seen in a run
  // every one of the low 128 bit positions must have been observed both set and clear
  // (chance of a false report: 256 * 2^-n for n coefficients; asserted for n >= 512)
  {
    let g = global.lock().unwrap();
    if g.len() >= 512 {
      // looked at in two bijective images of the field: the value itself and value * 2^192 mod p
      // (uniform draws are uniform in both; a generator that starves some machine words is not)
      let pp = bf::p();
      let r192 = BigUint::one() << 192;
      for domain in ["value", "value * 2^192 mod p"] {
        let mut or = [0u8; 16];
        let mut and = [0xffu8; 16];
        for c in g.keys() {
          let img: Vec<u8> = if domain == "value" { c.clone() } else { { let v: BigUint = BigUint::from_bytes_le(c) * &r192 % &pp; v.to_bytes_le() } };
          for i in 0..16 {
            let b = img.get(i).copied().unwrap_or(0);
            or[i] |= b;
            and[i] &= b;
          }
        }
        rec.ev("coefficient_bit_balance_checked");
        let stuck: Vec<usize> = (0..128).filter(|&i| (or[i / 8] >> (i % 8)) & 1 == 0 || (and[i / 8] >> (i % 8)) & 1 == 1).collect();
        if !stuck.is_empty() {
          let sample: Vec<String> = g.keys().take(8).map(|c| hex(c)).collect();
          rec.violation(
            "coefficient-bits-stuck",
            format!("{} of the low 128 bit positions of ({}) have the same value in all {} non-constant coefficients seen in this run: the coefficients are not uniform draws", stuck.len(), domain, g.len()),
            json!({"domain": domain, "stuck_bit_positions": stuck, "coefficients_le_hex_sample": sample, "coefficients_seen": g.len()}),
          );
        }
      }
    }
  }
  rec
}
