use crate::common::*;

pub mod c01;
pub mod c06;
pub mod c16;
pub mod c05;
pub mod c02;
pub mod c03;
pub mod c04;
pub mod c08;
pub mod c09;
pub mod c10;
pub mod c11;
pub mod c12;
pub mod c13;
pub mod c14;
pub mod c15;
pub mod c17;
pub mod c18;
pub mod c07;
pub mod replay;

pub fn dispatch(ctx: &Ctx) -> Rec {
  match ctx.prop.as_str() {
    "C01" => c01::run(ctx),
    "C06" => c06::run(ctx),
    "C16" => c16::run(ctx),
    "C05" => c05::run(ctx),
    "C02" => c02::run(ctx),
    "C03" => c03::run(ctx),
    "C04" => c04::run(ctx),
    "C08" => c08::run(ctx),
    "C09" => c09::run(ctx),
    "C10" => c10::run(ctx),
    "C11" => c11::run(ctx),
    "C12" => c12::run(ctx),
    "C13" => c13::run(ctx),
    "C14" => c14::run(ctx),
    "C15" => c15::run(ctx),
    "C17" => c17::run(ctx),
    "C18" => c18::run(ctx),
    "C07" => c07::run(ctx),
    "dump-corpus" => dump_corpus(ctx),
    "replay" => replay::run(ctx),
    other => {
      eprintln!("unknown property {}", other);
      std::process::exit(64);
    }
  }
}

/// `mon dump-corpus --set dir=<dir>`: writes the decoder cases of the hostile
/// corpus as libFuzzer seed files (first byte = target selector).
pub fn dump_corpus(ctx: &Ctx) -> Rec {
  use crate::hostile::{self, Target};
  let dir = ctx.extra.get("dir").cloned().unwrap_or_else(|| "corpus".into());
  let _ = std::fs::create_dir_all(&dir);
  let mut rec = Rec::new();
  let groups = ctx.n(16, 64);
  let mut n = 0u64;
  for g in 0..groups {
    for c in hostile::group(ctx, g) {
      let sel: u8 = match c.target {
        Target::SharksTryFrom => 0,
        Target::AdssFromBytes => 1,
        Target::StarShareFromBytes => 2,
        Target::MessageFromBytes => 3,
        Target::LoadBytes => 4,
        Target::LoadU32 => 5,
        Target::AccessStructure => 6,
        Target::PkLoad => 7,
        Target::ProofLoad => 8,
        Target::JsonPoint => 9,
        Target::JsonEvaluation => 10,
        Target::GroupShares => 11,
        _ => continue,
      };
      if c.blobs[0].len() > 4096 || n % 7 != 0 {
        n += 1;
        continue;
      }
      let mut b = vec![sel];
      b.extend_from_slice(&c.blobs[0]);
      let name = format!("{}/{:016x}", dir, h64(&[&b]));
      let _ = std::fs::write(name, b);
      n += 1;
      rec.evals += 1;
    }
  }
  rec.case(&1u8);
  rec.case(&2u8);
  rec
}
