use crate::common::*;

pub mod c07;

pub fn dispatch(ctx: &Ctx) -> Rec {
  match ctx.prop.as_str() {
    "C07" => c07::run(ctx),
    other => {
      eprintln!("unknown property {}", other);
      std::process::exit(64);
    }
  }
}
