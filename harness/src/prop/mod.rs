use crate::common::*;

pub mod c01;
pub mod c06;
pub mod c16;
pub mod c05;
pub mod c02;
pub mod c03;
pub mod c04;
pub mod c08;
pub mod c09;
pub mod c10;
pub mod c11;
pub mod c12;
pub mod c13;
pub mod c14;
pub mod c15;
pub mod c17;
pub mod c18;
pub mod c07;

pub fn dispatch(ctx: &Ctx) -> Rec {
  match ctx.prop.as_str() {
    "C01" => c01::run(ctx),
    "C06" => c06::run(ctx),
    "C16" => c16::run(ctx),
    "C05" => c05::run(ctx),
    "C02" => c02::run(ctx),
    "C03" => c03::run(ctx),
    "C04" => c04::run(ctx),
    "C08" => c08::run(ctx),
    "C09" => c09::run(ctx),
    "C10" => c10::run(ctx),
    "C11" => c11::run(ctx),
    "C12" => c12::run(ctx),
    "C13" => c13::run(ctx),
    "C14" => c14::run(ctx),
    "C15" => c15::run(ctx),
    "C17" => c17::run(ctx),
    "C18" => c18::run(ctx),
    "C07" => c07::run(ctx),
    other => {
      eprintln!("unknown property {}", other);
      std::process::exit(64);
    }
  }
}
