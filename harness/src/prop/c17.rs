//! C17 — the WASM string API is a faithful wrapper of the core protocol.

use crate::common::*;
use crate::layout::AdssShare;
use base64::{engine::Engine as _, prelude::BASE64_STANDARD};
use rand::seq::SliceRandom;
use rand::Rng;
use rand_chacha::ChaCha20Rng;
use serde_json::json;
use sta_rs::{MessageGenerator, SingleMeasurement};
use star_wasm::{create_share, group_shares};

struct Mat {
  key: Vec<u8>,
  share_b64: String,
  share: Vec<u8>,
  tag: Vec<u8>,
}

fn parse(rec: &mut Rec, js: &str, ctx_json: &serde_json::Value) -> Option<Mat> {
  let v: serde_json::Value = match serde_json::from_str(js) {
    Ok(v) => v,
    Err(e) => {
      rec.violation("create-share:not-json", format!("create_share output is not well-formed JSON: {}", e), json!({"output": js, "input": ctx_json}));
      return None;
    }
  };
  let o = v.as_object()?;
  let mut keys: Vec<&str> = o.keys().map(|k| k.as_str()).collect();
  keys.sort();
  // the three documented members must be there; further members are not excluded by the statement
  if !["key", "share", "tag"].iter().all(|k| keys.contains(k)) {
    rec.violation("create-share:keys", format!("JSON keys are {:?}, expected key, share and tag", keys), json!({"output": js}));
    return None;
  }
  if keys.len() > 3 {
    rec.ev("create_share_extra_json_members");
  }
  let get = |k: &str| o[k].as_str().and_then(|s| BASE64_STANDARD.decode(s).ok());
  match (get("key"), get("share"), get("tag")) {
    (Some(key), Some(share), Some(tag)) => Some(Mat { key, share_b64: o["share"].as_str().unwrap().to_string(), share, tag }),
    _ => {
      rec.violation("create-share:base64", "a field of the JSON is not a base64 string".into(), json!({"output": js}));
      None
    }
  }
}

fn epochs(rng: &mut ChaCha20Rng) -> String {
  match rng.gen_range(0..6) {
    0 => String::new(),
    1 => "t".into(),
    2 => "2024-06-01".into(),
    3 => "époque-\u{1F600}-\u{4e16}\u{754c}".into(),
    4 => (*pick(rng, &["\u{0}\n\"quoted\"\\", " 2024-01", "2024-01 ", "\t2024\n", "\u{a0}x\u{3000}", " ", "\n"])).to_string(),
    _ => (0..rng.gen_range(1..20)).map(|_| char::from(rng.gen_range(0x20u8..0x7f))).collect(),
  }
}

fn case(rec: &mut Rec, ctx: &Ctx, idx: u64, rng: &mut ChaCha20Rng) {
  let t: u32 = match idx % 10 {
    0 => rng.gen_range(17..=32),
    1 | 2 => rng.gen_range(6..=16),
    _ => rng.gen_range(1..=5),
  };
  let m = match rng.gen_range(0..7) {
    0 => vec![],
    6 => vec![0u8],
    1 => vec![0u8; rng.gen_range(1..40)],
    2 => rand_bytes(rng, 1),
    _ => rand_bytes_in(rng, 1..200),
  };
  let epoch = epochs(rng);
  rec.evals += 1;
  rec.case(&("wasm", t, m.len(), epoch.clone()));
  let input = json!({"measurement": hex_short(&m), "threshold": t, "epoch": epoch});
  // --- create_share
  let n = (2 * t) as usize;
  let mut mats: Vec<Mat> = Vec::new();
  for _ in 0..n {
    rec.ev("create_share");
    let js = create_share(&m, t, &epoch);
    match parse(rec, &js, &input) {
      Some(x) => mats.push(x),
      None => return,
    }
  }
  let core = match MessageGenerator::new(SingleMeasurement::new(&m), t, epoch.as_bytes()).share_with_local_randomness() {
    Ok(c) => c,
    Err(e) => {
      rec.violation("core-failed", e.to_string(), input);
      return;
    }
  };
  let core_share = AdssShare::decode(&core.share.to_bytes());
  for x in &mats {
    if x.key.len() != 16 || x.tag.len() != 32 {
      rec.violation("create-share:lengths", format!("key is {} bytes, tag is {} bytes", x.key.len(), x.tag.len()), input.clone());
      return;
    }
    if x.key != core.key || x.tag != core.tag {
      rec.violation(
        if x.key != core.key { "create-share:key-differs-from-core" } else { "create-share:tag-differs-from-core" },
        "key / tag returned by create_share differ from what the core library derives for the same (measurement, threshold, epoch)".into(),
        json!({"input": input, "wasm_key": hex(&x.key), "core_key": hex(&core.key), "wasm_tag": hex(&x.tag), "core_tag": hex(&core.tag)}),
      );
      return;
    }
    match (AdssShare::decode(&x.share), &core_share) {
      (Some(w), Some(c)) => {
        if w.t != t || w.c != c.c || w.d != c.d || w.j != c.j || w.s.ys.len() != c.s.ys.len() {
          rec.violation("create-share:share-differs-from-core", format!("the share disagrees with a core share beyond its evaluation point (threshold field {} vs {})", w.t, t), input.clone());
          return;
        }
      }
      _ => {
        rec.violation("create-share:share-invalid", "the share field does not parse under the documented layout".into(), input.clone());
        return;
      }
    }
    if sta_rs::Share::from_bytes(&x.share).is_none() {
      rec.violation("create-share:share-invalid", "the share field is rejected by the core decoder".into(), input.clone());
      return;
    }
  }
  let want = BASE64_STANDARD.encode(&core.key);
  let lines = |ix: &[usize]| ix.iter().map(|&i| mats[i].share_b64.clone()).collect::<Vec<_>>().join("\n");
  let tu = t as usize;
  let mut order: Vec<usize> = (0..n).collect();
  // --- group_shares with >= t distinct shares
  for count in [tu, tu + 1, n] {
    order.shuffle(rng);
    let sel: Vec<usize> = order[..count.min(n)].to_vec();
    rec.ev("group_shares");
    match quiet(rec, || group_shares(&lines(&sel), &epoch)) {
      Some(Some(k)) if k == want => rec.ev("group_returned_clients_key"),
      Some(other) => {
        rec.violation(
          "group-shares:wrong-result",
          format!("group_shares with {} >= t={} distinct shares returned {:?}, the clients hold {}", sel.len(), t, other, want),
          json!({"input": input, "lines": lines(&sel)}),
        );
        return;
      }
      None => return,
    }
  }
  // --- >= t distinct shares with repeated lines anywhere (client re-submissions),
  //     in every selection pattern of the core-protocol monitor
  for pat in crate::gen::SEL_PATTERNS.iter() {
    let sel = crate::gen::selection(rng, n, tu, *pat);
    rec.ev("group_shares");
    rec.ev("group_shares_with_repeats_or_permuted");
    rec.case(&("wasm-sel", t.min(8), *pat));
    match quiet(rec, || group_shares(&lines(&sel), &epoch)) {
      Some(Some(k)) if k == want => rec.ev("group_returned_clients_key"),
      Some(other) => {
        rec.violation(
          &format!("group-shares:wrong-result:{:?}", pat),
          format!("group_shares returned {:?} for a collection holding >= t={} distinct shares (pattern {:?}, {} lines); the clients hold {}", other, t, pat, sel.len(), want),
          json!({"input": input, "selection": sel, "lines": lines(&sel)}),
        );
        return;
      }
      None => return,
    }
  }
  // --- fewer than t distinct: nothing (also padded with repeats to t lines)
  if tu >= 2 {
    order.shuffle(rng);
    let mut sel: Vec<usize> = order[..tu - 1].to_vec();
    rec.ev("group_shares_below_threshold");
    if let Some(Some(k)) = quiet(rec, || group_shares(&lines(&sel), &epoch)) {
      rec.violation("group-shares:below-threshold", format!("group_shares returned {} from t-1 = {} distinct shares", k, tu - 1), json!({"input": input, "lines": lines(&sel)}));
      return;
    }
    while sel.len() < tu + 1 {
      let d = sel[rng.gen_range(0..tu - 1)];
      sel.insert(rng.gen_range(0..=sel.len()), d);
    }
    rec.ev("group_shares_below_threshold");
    if let Some(Some(k)) = quiet(rec, || group_shares(&lines(&sel), &epoch)) {
      rec.violation("group-shares:below-threshold-padded", format!("group_shares returned {} from t-1 distinct shares padded with repeats", k), json!({"input": input, "lines": lines(&sel)}));
      return;
    }
  }
  // --- mixtures in which no measurement reaches its threshold
  if tu >= 2 {
    let mut m2 = rand_bytes_in(rng, 1..50);
    if m2 == m {
      // short random measurements can coincide; the mixture needs a DIFFERENT one
      m2.push(0x5a);
    }
    let others: Vec<String> = (0..tu - 1)
      .filter_map(|_| parse(rec, &create_share(&m2, t, &epoch), &input).map(|x| x.share_b64))
      .collect();
    let mut all: Vec<String> = (0..tu - 1).map(|i| mats[i].share_b64.clone()).collect();
    all.extend(others);
    for round in 0..3 {
      if round > 0 {
        all.shuffle(rng);
      }
      rec.ev("group_shares_mixture");
      if let Some(Some(k)) = quiet(rec, || group_shares(&all.join("\n"), &epoch)) {
        rec.violation("group-shares:mixture", format!("group_shares returned {} although no measurement in the collection reaches its threshold", k), json!({"input": input, "lines": all.join("\n")}));
        return;
      }
    }
  }
  // --- the empty value and a lone NUL byte are different measurements / epochs
  if m.is_empty() || m == [0u8] || epoch.is_empty() || epoch == "\u{0}" {
    let m_alt: Vec<u8> = if m.is_empty() { vec![0u8] } else if m == [0u8] { vec![] } else { m.clone() };
    if m_alt != m && tu >= 2 {
      // t-1 shares of each: no measurement reaches its threshold
      let others: Vec<String> = (0..tu - 1).filter_map(|_| parse(rec, &create_share(&m_alt, t, &epoch), &input).map(|x| x.share_b64)).collect();
      let mut all: Vec<String> = (0..tu - 1).map(|i| mats[i].share_b64.clone()).collect();
      all.extend(others);
      rec.ev("group_shares_mixture");
      if let Some(Some(k)) = quiet(rec, || group_shares(&all.join("\n"), &epoch)) {
        rec.violation("group-shares:mixture:empty-vs-nul", format!("t-1 shares of measurement {:?} plus t-1 shares of {:?} recovered {}", m, m_alt, k), json!({"input": input}));
        return;
      }
    }
  }
  // --- a different epoch never yields the clients' key
  for other in [format!("{}x", epoch), String::new(), "t".to_string(), epochs(rng), format!("{} ", epoch), format!(" {}", epoch), format!("{}\n", epoch), epoch.trim().to_string(), "\u{0}".to_string(), format!("{}\u{0}", epoch)] {
    if other == epoch {
      continue;
    }
    rec.ev("group_shares_wrong_epoch");
    let sel: Vec<usize> = (0..tu).collect();
    if let Some(Some(k)) = quiet(rec, || group_shares(&lines(&sel), &other)) {
      if k == want {
        rec.violation("group-shares:wrong-epoch-yields-key", format!("group_shares with epoch {:?} instead of {:?} returned the clients' key", other, epoch), json!({"input": input}));
        return;
      }
    }
  }
  // consecutive calls whose epoch||measurement bytes coincide (boundary shifts):
  // each must still equal what the core library derives for its own inputs
  if idx % 3 == 0 {
    let s: String = (0..rng.gen_range(2..10)).map(|_| char::from(rng.gen_range(0x30u8..0x7b))).collect();
    let suffix = rand_bytes_in(rng, 0..6);
    let t2 = rng.gen_range(1..=4u32);
    for i in 0..=s.len() {
      let e2 = &s[..i];
      let mut m2 = s.as_bytes()[i..].to_vec();
      m2.extend_from_slice(&suffix);
      rec.ev("create_share_boundary_shift");
      let js = create_share(&m2, t2, e2);
      let got = match parse(rec, &js, &json!({"measurement": hex(&m2), "epoch": e2, "threshold": t2})) {
        Some(g) => g,
        None => return,
      };
      let core2 = match MessageGenerator::new(SingleMeasurement::new(&m2), t2, e2.as_bytes()).share_with_local_randomness() {
        Ok(c) => c,
        Err(_) => return,
      };
      if got.key != core2.key || got.tag != core2.tag {
        rec.violation(
          "create-share:history-dependent",
          format!("create_share(measurement {:?}, epoch {:?}) right after a call whose epoch||measurement bytes are the same returned a key/tag other than the core library's for these inputs", String::from_utf8_lossy(&m2), e2),
          json!({"concatenation": s, "split": i, "threshold": t2}),
        );
        return;
      }
    }
  }
  if idx < 2 {
    rec.sample(json!({"input": input, "create_share_output": create_share(&m, t, &epoch), "group_result": want}));
  }
  let _ = ctx;
}

/// a refused call must not leave anything behind on the thread: right after a call that was
/// refused for an undecodable line FOLLOWING good lines (trailing newline, garbage line, a
/// truncated share), one share of a threshold-2 measurement yields nothing and a full group
/// of another measurement yields that measurement's key
fn after_refused_call(rec: &mut Rec, _ctx: &Ctx, idx: u64, rng: &mut ChaCha20Rng) {
  let epoch = "after-refused";
  let mk = |m: &[u8], t: u32, n: usize| -> Option<(String, Vec<String>)> {
    let mut key = String::new();
    let mut lines = Vec::new();
    for _ in 0..n {
      let v: serde_json::Value = serde_json::from_str(&create_share(m, t, epoch)).ok()?;
      key = v["key"].as_str()?.to_string();
      lines.push(v["share"].as_str()?.to_string());
    }
    Some((key, lines))
  };
  let ta = rng.gen_range(2..=4u32);
  let (ma, mb) = (rand_bytes_in(rng, 1..20), rand_bytes_in(rng, 1..20));
  let (a, b) = match (mk(&ma, ta, ta as usize + 1), mk(&mb, 3, 3)) {
    (Some(a), Some(b)) => (a, b),
    _ => return,
  };
  rec.evals += 1;
  rec.case(&("after-refused", idx % 6, ta));
  // t-1 good shares of A, then a line that cannot be decoded
  let k = ta as usize - 1;
  let good = a.1[..k].join("\n");
  let poisoned = match idx % 6 {
    0 => format!("{}\n", good),
    1 => format!("{}\n***", good),
    2 => format!("{}\n{}", good, &a.1[k][..a.1[k].len() / 2]),
    3 => format!("{}\n\n{}", good, a.1[k]),
    4 => format!("{}\nAAAA", good),
    _ => format!("{}\r\n{}", good, a.1[k]),
  };
  // (1) ... then ONE further share of A on its own: below the threshold, whatever came before
  rec.ev("refused_calls_before_honest");
  let first = quiet(rec, || group_shares(&poisoned, epoch));
  rec.ev("group_shares_below_threshold");
  if let Some(Some(k1)) = quiet(rec, || group_shares(&a.1[ta as usize], epoch)) {
    rec.violation(
      "group-shares:below-threshold:after-refused-call",
      format!("ONE share of a threshold-{} measurement yielded a key ({}) right after a call on the same thread that held {} other shares of it and was {}", ta, k1, k, if matches!(first, Some(None)) { "refused" } else { "answered" }),
      json!({"previous_input": poisoned, "input": a.1[ta as usize]}),
    );
    return;
  }
  // (2) ... and a full group of another measurement right after such a call
  rec.ev("refused_calls_before_honest");
  let _ = quiet(rec, || group_shares(&poisoned, epoch));
  rec.ev("group_shares");
  match quiet(rec, || group_shares(&b.1.join("\n"), epoch)) {
    Some(Some(kb)) if kb == b.0 => {}
    Some(other) => rec.violation(
      "group-shares:wrong-result:after-refused-call",
      format!("a full threshold-3 group returned {:?} right after a refused call on the same thread; its clients hold {}", other, b.0),
      json!({"previous_input": poisoned, "input": b.1.join("\n")}),
    ),
    None => {}
  }
}

/// one threshold: t shares through create_share, grouped with and without one missing
fn threshold_sweep(rec: &mut Rec, _ctx: &Ctx, t: u64, rng: &mut ChaCha20Rng) {
  let t = t as u32 + 1;
  let m = rand_bytes_in(rng, 1..20);
  let epoch = "sweep";
  rec.evals += 1;
  rec.ev("threshold_sweep");
  rec.case(&("threshold", t));
  let mut lines: Vec<String> = Vec::new();
  let mut key = String::new();
  for _ in 0..t {
    let v: serde_json::Value = match serde_json::from_str(&create_share(&m, t, epoch)) {
      Ok(v) => v,
      Err(_) => return,
    };
    key = v["key"].as_str().unwrap_or("").to_string();
    lines.push(v["share"].as_str().unwrap_or("").to_string());
  }
  match quiet(rec, || group_shares(&lines.join("\n"), epoch)) {
    Some(Some(k)) if k == key => {}
    Some(other) => rec.violation(
      "group-shares:wrong-result:threshold-sweep",
      format!("threshold {}: {} distinct shares of one measurement gave {:?}, the clients hold {}", t, t, other, key),
      json!({"threshold": t, "measurement": hex(&m)}),
    ),
    None => {}
  }
}

pub fn run(ctx: &Ctx) -> Rec {
  let mut rec = par_run(ctx, "wasm", ctx.n(5000, 200_000), |rec, i, rng| case(rec, ctx, i, rng));
  // every threshold 1..=T once: 700 in the quick tier, 1024 in the thorough tier
  let tmax: u64 = ctx.extra.get("tmax").and_then(|v| v.parse().ok()).unwrap_or((((if ctx.thorough() { 1024 } else { 700 }) as f64) * ctx.scale.min(1.0)).ceil() as u64);
  rec.merge(par_run(ctx, "threshold-sweep", tmax, |rec, i, rng| threshold_sweep(rec, ctx, tmax - 1 - i, rng)));
  rec.note("threshold_sweep_max", json!(tmax));
  rec.merge(par_run(ctx, "after-refused", ctx.n(600, 20_000), |rec, i, rng| after_refused_call(rec, ctx, i, rng)));
  rec
}
