//! C04 — tags and keys are a function of exactly (measurement, epoch, threshold).
//! Within a triple: equality across independent clients and entry points, share
//! points distinct, shares mutually combinable. Across triples: global
//! injectivity of randomness / tag / key.

use crate::common::*;
use crate::layout::AdssShare;
use rand::seq::SliceRandom;
use rand::Rng;
use rand_chacha::ChaCha20Rng;
use serde_json::json;
use sta_rs::{derive_ske_key, share_recover, AssociatedData, Message, MessageGenerator, Share, SingleMeasurement};
use std::collections::{HashMap, HashSet};
use std::sync::Mutex;

type Triple = (Vec<u8>, Vec<u8>, u32);

pub struct Global {
  /// every share point produced in the whole run, whatever thread produced it
  points: Mutex<HashSet<[u8; 24]>>,
  rnd: Mutex<HashMap<Vec<u8>, Triple>>,
  tag: Mutex<HashMap<Vec<u8>, Triple>>,
  key: Mutex<HashMap<Vec<u8>, Triple>>,
}

fn tj(t: &Triple) -> serde_json::Value {
  json!({"measurement": hex_short(&t.0), "epoch": hex_short(&t.1), "threshold": t.2})
}

fn inject(rec: &mut Rec, map: &Mutex<HashMap<Vec<u8>, Triple>>, what: &str, val: &[u8], tr: &Triple) {
  rec.ev("injectivity_insert");
  let mut g = map.lock().unwrap();
  if let Some(prev) = g.get(val) {
    if prev != tr {
      let differs = if prev.0 != tr.0 && prev.1 == tr.1 && prev.2 == tr.2 {
        "measurement"
      } else if prev.0 == tr.0 && prev.1 != tr.1 && prev.2 == tr.2 {
        "epoch"
      } else if prev.0 == tr.0 && prev.1 == tr.1 {
        "threshold"
      } else {
        "several"
      };
      rec.violation(
        &format!("collision:{}:differ-in-{}", what, differs),
        format!("two different (measurement, epoch, threshold) triples produced the same {} {}", what, hex(val)),
        json!({"value": hex(val), "triple_a": tj(prev), "triple_b": tj(tr)}),
      );
    }
  } else {
    g.insert(val.to_vec(), tr.clone());
  }
}

/// observe one triple with `clients` independent clients
fn observe(rec: &mut Rec, g: &Global, tr: &Triple, clients: usize, rng: &mut ChaCha20Rng, deal: bool, threaded: bool) {
  rec.evals += 1;
  let (m, e, t) = (&tr.0, &tr.1, tr.2);
  let mut rnds: Vec<[u8; 32]> = Vec::new();
  let mut tags: Vec<Vec<u8>> = Vec::new();
  let mut keys: Vec<Vec<u8>> = Vec::new();
  let mut shares: Vec<Share> = Vec::new();
  for c in 0..clients {
    // `x` is a public field: some generators were built for ANOTHER measurement,
    // used, and then re-targeted
    let mg = if c % 3 == 2 {
      let mut other = m.clone();
      other.push(0x99);
      let mut g0 = MessageGenerator::new(SingleMeasurement::new(&other), t, e);
      let mut tmp = [0u8; 32];
      g0.sample_local_randomness(&mut tmp);
      let _ = g0.share_with_local_randomness();
      g0.x = SingleMeasurement::new(m);
      g0
    } else if c % 3 == 1 && std::str::from_utf8(m).is_ok() {
      // text measurements enter through the string conversion
      MessageGenerator::new(SingleMeasurement::from(std::str::from_utf8(m).unwrap()), t, e)
    } else {
      MessageGenerator::new(SingleMeasurement::new(m), t, e)
    };
    let mut rnd = [0u8; 32];
    mg.sample_local_randomness(&mut rnd);
    rec.ev("sample_local_randomness");
    rnds.push(rnd);
    if !deal {
      continue;
    }
    if c % 2 == 0 {
      let aux = if c % 4 == 0 { None } else { Some(AssociatedData::new(&rand_bytes_in(rng, 0..40))) };
      match Message::generate(&mg, &rnd, aux) {
        Ok(msg) => {
          rec.ev("message_generate");
          tags.push(msg.tag.clone());
          shares.push(msg.share.clone());
        }
        Err(er) => {
          rec.violation("generate-failed", er.to_string(), tj(tr));
          return;
        }
      }
    } else {
      match mg.share_with_local_randomness() {
        Ok(w) => {
          rec.ev("share_with_local_randomness");
          tags.push(w.tag.to_vec());
          keys.push(w.key.to_vec());
          shares.push(w.share.clone());
        }
        Err(er) => {
          rec.violation("generate-failed", er.to_string(), tj(tr));
          return;
        }
      }
    }
  }
  // --- within the triple
  if rnds.iter().any(|r| r != &rnds[0]) {
    rec.violation("nondeterministic:randomness", "independent clients of one triple derived different local randomness".into(), tj(tr));
  }
  if tags.iter().any(|x| x != &tags[0]) {
    rec.violation("nondeterministic:tag", "independent clients of one triple (differing only in associated data / entry point) produced different tags".into(), tj(tr));
  }
  if keys.iter().any(|x| x != &keys[0]) {
    rec.violation("nondeterministic:key", "independent clients of one triple produced different encryption keys".into(), tj(tr));
  }
  inject(rec, &g.rnd, "randomness", &rnds[0], tr);
  if !deal {
    return;
  }
  inject(rec, &g.tag, "tag", &tags[0], tr);
  // share points pairwise distinct
  let enc: Vec<Vec<u8>> = shares.iter().map(|s| s.to_bytes()).collect();
  let xs: HashSet<[u8; 24]> = enc.iter().filter_map(|b| AdssShare::decode(b)).map(|p| p.s.x).collect();
  rec.ev("share_points_checked");
  {
    let mut gp = g.points.lock().unwrap();
    for x in xs.iter() {
      if !gp.insert(*x) {
        drop(gp);
        rec.violation(
          "share-point-repeat:across-clients-of-the-run",
          "a share point produced by this client was already produced by another client of this run (possibly on another thread): evaluation points are not fresh per share".into(),
          json!({"triple": tj(tr), "x": hex(x)}),
        );
        return;
      }
    }
  }
  if xs.len() != shares.len() {
    rec.violation(
      "share-point-repeat",
      format!("{} independent clients of one triple produced only {} distinct evaluation points", shares.len(), xs.len()),
      json!({"triple": tj(tr), "shares_hex": enc.iter().take(6).map(|b| hex(b)).collect::<Vec<_>>() }),
    );
    return;
  }
  // independent clients are independent threads / processes in practice: the same
  // triple shared concurrently on three fresh threads must still give distinct points
  if threaded && t <= 8 && clients >= 3 {
    let hs: Vec<_> = (0..3)
      .map(|_| {
        let (m, e) = (m.clone(), e.clone());
        std::thread::spawn(move || {
          let mg = MessageGenerator::new(SingleMeasurement::new(&m), t, &e);
          (0..2).filter_map(|_| mg.share_with_local_randomness().ok().map(|w| w.share.to_bytes())).collect::<Vec<_>>()
        })
      })
      .collect();
    let mut txs: Vec<[u8; 24]> = Vec::new();
    for h in hs {
      if let Ok(v) = h.join() {
        txs.extend(v.iter().filter_map(|b| AdssShare::decode(b)).map(|p| p.s.x));
      }
    }
    rec.ev("threaded_clients_checked");
    let distinct: HashSet<[u8; 24]> = txs.iter().cloned().collect();
    let mut gp = g.points.lock().unwrap();
    let fresh = txs.iter().all(|x| gp.insert(*x));
    drop(gp);
    if distinct.len() != txs.len() || !fresh {
      rec.violation(
        "share-point-repeat:across-threads",
        format!("clients of one triple running on separate threads produced {} distinct evaluation points for {} shares", distinct.len(), txs.len()),
        json!({"triple": tj(tr)}),
      );
      return;
    }
  }
  // mutually combinable: any t of the mixed Message / WASM shares recover, and
  // the recovered seed re-derives the clients' key
  if shares.len() >= t as usize && t >= 1 {
    let mut ix: Vec<usize> = (0..shares.len()).collect();
    ix.shuffle(rng);
    let sel: Vec<Share> = ix[..t as usize].iter().map(|&i| shares[i].clone()).collect();
    rec.ev("combine");
    match share_recover(&sel) {
      Ok(c) => {
        let mut k = vec![0u8; 16];
        derive_ske_key(&c.get_message(), e, &mut k);
        if !keys.is_empty() && k != keys[0] {
          rec.violation("key-mismatch", "the key re-derived from the recovered seed differs from the key the clients hold".into(), tj(tr));
        }
        inject(rec, &g.key, "key", &k, tr);
      }
      Err(er) => rec.violation(
        "not-combinable",
        format!("{} shares of independent clients (Message::generate and share_with_local_randomness mixed) do not combine: {}", t, er),
        json!({"triple": tj(tr), "shares_hex": enc.iter().take(6).map(|b| hex(b)).collect::<Vec<_>>() }),
      ),
    }
  } else if !keys.is_empty() {
    inject(rec, &g.key, "key", &keys[0], tr);
  }
}

/// enumerated neighbour families around a base triple
fn neighbours(rng: &mut ChaCha20Rng, idx: u64) -> Vec<Triple> {
  let mut out: Vec<Triple> = Vec::new();
  match idx % 10 {
    0 => {
      // every split point of a fixed concatenation m||e (incl. empty components)
      let cat = rand_bytes_in(rng, 0..13);
      let t = rng.gen_range(1..6);
      for s in 0..=cat.len() {
        out.push((cat[..s].to_vec(), cat[s..].to_vec(), t));
      }
    }
    1 => {
      // prefix pairs and swaps
      let m = rand_bytes_in(rng, 0..10);
      let e = rand_bytes_in(rng, 0..10);
      let t = rng.gen_range(1..6);
      let mut m0 = m.clone();
      m0.push(0);
      let mut e0 = e.clone();
      e0.push(0);
      out.push((m.clone(), e.clone(), t));
      out.push((m0.clone(), e.clone(), t));
      out.push((m.clone(), e0.clone(), t));
      out.push((m0, e0, t));
      if m != e {
        out.push((e.clone(), m.clone(), t));
      }
      out.push((vec![], e.clone(), t));
      out.push((m.clone(), vec![], t));
      out.push((vec![], vec![], t));
    }
    2 => {
      // thresholds differing in one bit, and +-1
      let m = rand_bytes_in(rng, 0..10);
      let e = rand_bytes_in(rng, 0..6);
      let t: u32 = rng.gen_range(1..6);
      out.push((m.clone(), e.clone(), t));
      for b in 0..32 {
        out.push((m.clone(), e.clone(), t ^ (1 << b)));
      }
      out.push((m.clone(), e.clone(), t + 1));
      if t > 1 {
        out.push((m.clone(), e.clone(), t - 1));
      }
    }
    3 => {
      // bytes of the threshold moved into the epoch and back
      let m = rand_bytes_in(rng, 0..10);
      let e = rand_bytes_in(rng, 0..6);
      let t: u32 = rng.gen_range(1..0x01000000);
      let tb = t.to_le_bytes();
      out.push((m.clone(), e.clone(), t));
      for k in 1..=3 {
        // epoch' = epoch || first k threshold bytes ; threshold' = remaining bytes shifted down
        let mut e2 = e.clone();
        e2.extend_from_slice(&tb[..k]);
        let mut rest = [0u8; 4];
        rest[..4 - k].copy_from_slice(&tb[k..]);
        out.push((m.clone(), e2, u32::from_le_bytes(rest)));
      }
      if !e.is_empty() {
        // last epoch byte moved into the threshold
        let mut e2 = e.clone();
        let last = e2.pop().unwrap();
        out.push((m.clone(), e2, (t << 8) | last as u32));
      }
      // measurement tail moved into the epoch head
      if !m.is_empty() {
        let mut m2 = m.clone();
        let last = m2.pop().unwrap();
        let mut e2 = vec![last];
        e2.extend_from_slice(&e);
        out.push((m2, e2, t));
      }
    }
    4 => {
      // text values that differ only in white space at their edges (also the empty string)
      let ascii = |rng: &mut ChaCha20Rng, lo: usize| -> Vec<u8> { (0..rng.gen_range(lo..7)).map(|_| rng.gen_range(b'a'..=b'z')).collect() };
      let m = ascii(rng, 0);
      let e = ascii(rng, 0);
      let t = rng.gen_range(1..5);
      let edge = |v: &Vec<u8>, pre: &[u8], post: &[u8]| -> Vec<u8> {
        let mut o = pre.to_vec();
        o.extend_from_slice(v);
        o.extend_from_slice(post);
        o
      };
      let edges: [(&[u8], &[u8]); 9] =
        [(b"", b""), (b" ", b""), (b"", b" "), (b" ", b" "), (b"", b"\n"), (b"\t", b""), (b"", b"\r\n"), (b"", b"  "), (b"\n", b"\n")];
      for (pre, post) in edges.iter() {
        out.push((edge(&m, pre, post), e.clone(), t));
        out.push((m.clone(), edge(&e, pre, post), t));
      }
    }
    5 => {
      // trailing digits of the epoch moved into a TEXT rendering of the threshold
      // (decimal / hex), and back: every split of a digit string
      let prefix: Vec<u8> = if rng.gen_bool(0.5) { vec![] } else { b"2024-".to_vec() };
      let m = rand_bytes_in(rng, 0..10);
      let hexmode = rng.gen_bool(0.3);
      let len = rng.gen_range(2..=6);
      let digits: Vec<u8> = (0..len)
        .map(|i| {
          let d = if i == 0 { rng.gen_range(1..10) } else { rng.gen_range(0..if hexmode { 16 } else { 10 }) };
          b"0123456789abcdef"[d]
        })
        .collect();
      for i in 0..len {
        let tail = std::str::from_utf8(&digits[i..]).unwrap();
        // the text must be the canonical rendering of the number (no leading zeros)
        if tail.len() > 1 && tail.starts_with('0') {
          continue;
        }
        if let Ok(t) = u32::from_str_radix(tail, if hexmode { 16 } else { 10 }) {
          let mut e = prefix.clone();
          e.extend_from_slice(&digits[..i]);
          out.push((m.clone(), e, t));
        }
      }
      // and the all-digits epoch with threshold 0
      let mut e = prefix.clone();
      e.extend_from_slice(&digits);
      out.push((m.clone(), e, 0));
    }
    8 => {
      // x || sep || y || sep || z cut at each separator: (x, y sep z) vs (x sep y, z), for
      // the separators a joined cache key or a text protocol would use
      let sep = *pick(rng, &[b'|', b',', b':', b'/', b';', b' ', b'\n', 0u8, b'-', b'_', b'.']);
      let ascii = |rng: &mut ChaCha20Rng| -> Vec<u8> { (0..rng.gen_range(1..6)).map(|_| rng.gen_range(b'a'..=b'z')).collect() };
      let (x, y, z) = (ascii(rng), ascii(rng), ascii(rng));
      let t = rng.gen_range(1..5);
      let j = |parts: &[&Vec<u8>]| -> Vec<u8> {
        let mut v = Vec::new();
        for (i, p) in parts.iter().enumerate() {
          if i > 0 {
            v.push(sep);
          }
          v.extend_from_slice(p);
        }
        v
      };
      out.push((j(&[&x, &y]), z.clone(), t));
      out.push((x.clone(), j(&[&y, &z]), t));
      out.push((j(&[&x, &y, &z]), vec![], t));
      out.push((vec![], j(&[&x, &y, &z]), t));
      let mut xs = x.clone();
      xs.push(sep);
      out.push((xs, j(&[&y, &z]), t));
      let mut sy = vec![sep];
      sy.extend_from_slice(&y);
      out.push((x.clone(), j(&[&sy, &z]), t));
    }
    7 => {
      // components exchanged through their encodings: (m, LE(a), b) vs (m, LE(b), a),
      // also big-endian and with the measurement taking part
      let m = rand_bytes_in(rng, 0..8);
      let a: u32 = *pick(rng, &[1u32, 2, 3, 7, 50, 255, 256, 1000, 65536]);
      let b: u32 = loop {
        let b = *pick(rng, &[1u32, 2, 3, 7, 50, 255, 256, 1000, 65537]);
        if b != a {
          break b;
        }
      };
      out.push((m.clone(), a.to_le_bytes().to_vec(), b));
      out.push((m.clone(), b.to_le_bytes().to_vec(), a));
      out.push((m.clone(), a.to_be_bytes().to_vec(), b));
      out.push((m.clone(), b.to_be_bytes().to_vec(), a));
      out.push((a.to_le_bytes().to_vec(), m.clone(), b));
      out.push((b.to_le_bytes().to_vec(), m.clone(), a));
      out.push((a.to_le_bytes().to_vec(), b.to_le_bytes().to_vec(), 1));
      out.push((b.to_le_bytes().to_vec(), a.to_le_bytes().to_vec(), 1));
    }
    6 => {
      // long measurements that differ in a single byte, at every position class
      let l = *pick(rng, &[65usize, 100, 128, 129, 200, 300]);
      let base = rand_bytes(rng, l);
      let e = rand_bytes_in(rng, 0..6);
      let t = rng.gen_range(1..6);
      out.push((base.clone(), e.clone(), t));
      for pos in [0usize, 31, 32, 63, 64, 65, 99, 127, 128, 165, 166, 199, l - 1] {
        if pos < l {
          let mut v = base.clone();
          v[pos] ^= 1 << rng.gen_range(0..8);
          out.push((v, e.clone(), t));
        }
      }
      out.push((base[..l - 1].to_vec(), e.clone(), t));
      let mut longer = base.clone();
      longer.push(0);
      out.push((longer, e.clone(), t));
    }
    _ => {
      // unrelated base triples (also long inputs)
      for _ in 0..4 {
        let ml = *pick(rng, &[0usize, 1, 2, 16, 32, 166, 167, 400]);
        out.push((rand_bytes(rng, ml), rand_bytes_in(rng, 0..70), rng.gen_range(1..8)));
      }
    }
  }
  out.sort();
  out.dedup();
  out
}

fn family(rec: &mut Rec, _ctx: &Ctx, idx: u64, rng: &mut ChaCha20Rng, g: &Global) {
  let trs = neighbours(rng, idx);
  rec.case(&("family", idx % 10, trs.len()));
  for tr in &trs {
    // dealing costs O(t): above 1024 only the randomness is observed
    let deal = tr.2 >= 1 && tr.2 <= 1024 && (tr.2 <= 8 || idx % 40 == 2);
    let clients = if deal { (tr.2 as usize + 1).max(2).min(if tr.2 > 8 { tr.2 as usize + 1 } else { 9 }) } else { 2 };
    rec.case(&(tr.0.clone(), tr.1.clone(), tr.2));
    observe(rec, g, tr, clients, rng, deal, idx % 5 == 0);
  }
  if idx < 10 {
    rec.sample(json!({"family": idx % 10, "triples": trs.iter().take(5).map(tj).collect::<Vec<_>>() }));
  }
}

pub fn run(ctx: &Ctx) -> Rec {
  let g = Global {
    points: Mutex::new(HashSet::new()),
    rnd: Mutex::new(HashMap::new()),
    tag: Mutex::new(HashMap::new()),
    key: Mutex::new(HashMap::new()),
  };
  let mut rec = par_run(ctx, "family", ctx.n(3000, 150_000), |rec, i, rng| family(rec, ctx, i, rng, &g));
  rec.note("global_randomness_values", json!(g.rnd.lock().unwrap().len()));
  rec.note("global_tag_values", json!(g.tag.lock().unwrap().len()));
  rec.note("global_key_values", json!(g.key.lock().unwrap().len()));
  rec
}
