//! C09 — data from other parties never crashes the receiver.
//! Every listed entry point is called on the hostile corpus inside
//! catch_unwind; the workload runs in child processes that publish the index
//! of the case they are about to execute, so aborts (allocation failure, stack
//! overflow, signals, sanitizer deaths) are attributed to an input too.

use crate::common::*;
use crate::exec::{exec, model, Outcome};
use crate::hostile::{self, Case};
use serde_json::{json, Value};
use std::os::unix::fs::FileExt;
use std::process::Command;

fn sig_of(c: &Case, loc: &str) -> String {
  format!("panic:{:?}:{}", c.target, strip_line(loc))
}

fn run_case(rec: &mut Rec, c: &Case) {
  rec.evals += 1;
  rec.ev(&format!("call:{:?}", c.target));
  rec.case(&(c.target, c.num, c.blobs.iter().map(|b| h64(&[b])).collect::<Vec<_>>()));
  match guarded(|| exec(c)) {
    Ok(out) => {
      match &out {
        Outcome::Accepted(_) => rec.ev("returned_ok"),
        Outcome::Rejected => rec.ev("returned_failure"),
        Outcome::True => rec.ev("returned_true"),
        Outcome::False => rec.ev("returned_false"),
        Outcome::NotReached => rec.ev("not_reached(inner decoder refused)"),
      }
      // failure channel: structurally invalid input must come back as failure
      if let Some(None) = model(c) {
        if let Outcome::Accepted(re) = &out {
          rec.violation(
            &format!("malformed-accepted:{:?}", c.target),
            format!("{:?} returned success on a structurally invalid input ({})", c.target, c.desc),
            json!({"case": c.to_json(), "returned": hex_short(re)}),
          );
        }
      }
    }
    Err(p) => {
      rec.ev("panicked");
      rec.violation(
        &sig_of(c, &p.loc),
        format!("{:?} panicked at {} on input from another party ({}): {}", c.target, p.loc, c.desc, p.msg),
        json!({"case": c.to_json(), "panic_location": p.loc, "panic_message": p.msg}),
      );
    }
  }
}

fn n_groups(ctx: &Ctx) -> u64 {
  if let Some(g) = ctx.extra.get("groups") {
    return g.parse().unwrap_or(8);
  }
  ctx.n(480, 16000)
}

/// child / in-process worker: groups g = shard, shard+shards, ...
fn worker(ctx: &Ctx, shard: u64, shards: u64, start_g: u64, start_k: u64, progress: Option<&str>, out: Option<&str>) -> Rec {
  let pf = progress.map(|p| std::fs::OpenOptions::new().create(true).write(true).open(p).expect("progress file"));
  let mut rec = Rec::new();
  let total = n_groups(ctx);
  let mut g = shard;
  while g < total {
    let gmod_ok = ctx.extra.get("gmod").map(|m| g % 8 == m.parse::<u64>().unwrap_or(0)).unwrap_or(true);
    let stride: u64 = ctx.extra.get("stride").and_then(|s| s.parse().ok()).unwrap_or(1);
    if g >= start_g && gmod_ok {
      let cases = hostile::group(ctx, g);
      for (k, c) in cases.iter().enumerate() {
        if g == start_g && (k as u64) < start_k {
          continue;
        }
        if stride > 1 && (k as u64 + g) % stride != 0 {
          continue;
        }
        if let Some(f) = &pf {
          let mut b = [0u8; 16];
          b[..8].copy_from_slice(&g.to_le_bytes());
          b[8..].copy_from_slice(&(k as u64).to_le_bytes());
          let _ = f.write_at(&b, 0);
        }
        run_case(&mut rec, c);
        if g < 8 && k == 5 {
          rec.sample(c.to_json());
        }
      }
      rec.ev("groups_completed");
      if let Some(o) = out {
        let tmp = format!("{}.tmp", o);
        if std::fs::write(&tmp, serde_json::to_string(&rec.to_json()).unwrap()).is_ok() {
          let _ = std::fs::rename(&tmp, o);
        }
      }
    }
    g += shards;
  }
  rec
}

fn merge_json(rec: &mut Rec, j: &Value) {
  if let Some(c) = j["counters"].as_object() {
    for (k, v) in c {
      rec.evn(k, v.as_u64().unwrap_or(0));
    }
  }
  rec.evals += j["evals"].as_u64().unwrap_or(0);
  // distinct cases are hashed per child; children work on disjoint groups
  let d = j["distinct"].as_u64().unwrap_or(0);
  let base = rec.distinct.len() as u64;
  for i in 0..d {
    rec.distinct.insert(h64(&[b"child", &(base + i).to_le_bytes(), &rec.evals.to_le_bytes()]));
  }
  if let Some(vs) = j["violations"].as_array() {
    for v in vs {
      rec.violation(v["sig"].as_str().unwrap_or("?"), v["detail"].as_str().unwrap_or("").to_string(), v["replay"].clone());
    }
  }
  // counts of signatures beyond the kept witnesses
  if let Some(vs) = j["violation_sigs"].as_object() {
    for (s, n) in vs {
      let have = rec.viol_sigs.get(s).cloned().unwrap_or(0);
      let kept_here = j["violations"].as_array().map(|a| a.iter().filter(|v| v["sig"].as_str() == Some(s)).count() as u64).unwrap_or(0);
      let extra = n.as_u64().unwrap_or(0).saturating_sub(kept_here);
      rec.viol_sigs.insert(s.clone(), have + extra);
      rec.violation_count += extra;
    }
  }
  if let Some(ss) = j["samples"].as_array() {
    for s in ss {
      rec.sample(s.clone());
    }
  }
}

pub fn run(ctx: &Ctx) -> Rec {
  if ctx.flag("child") {
    let shard: u64 = ctx.extra["shard"].parse().unwrap();
    let shards: u64 = ctx.extra["shards"].parse().unwrap();
    let sg: u64 = ctx.extra.get("start_g").map(|s| s.parse().unwrap()).unwrap_or(0);
    let sk: u64 = ctx.extra.get("start_k").map(|s| s.parse().unwrap()).unwrap_or(0);
    if !ctx.flag("noaslimit") {
      unsafe {
        let lim = libc::rlimit {
          rlim_cur: 8 << 30,
          rlim_max: 8 << 30,
        };
        libc::setrlimit(libc::RLIMIT_AS, &lim);
      }
    }
    return worker(ctx, shard, shards, sg, sk, ctx.extra.get("progress").map(|s| s.as_str()), ctx.extra.get("partial").map(|s| s.as_str()));
  }
  if ctx.flag("inproc") {
    // Miri / valgrind: no child processes; aborts end the run (reported by check.py)
    return worker(ctx, 0, 1, 0, 0, None, None);
  }
  let exe = std::env::current_exe().expect("current_exe");
  let shards = ctx.threads.max(1) as u64;
  let dir = std::env::temp_dir().join(format!("mon-c09-{}", std::process::id()));
  let _ = std::fs::create_dir_all(&dir);
  let mut rec = Rec::new();
  let tier = if ctx.thorough() { "thorough" } else { "quick" };
  let results: Vec<Rec> = std::thread::scope(|s| {
    let hs: Vec<_> = (0..shards)
      .map(|shard| {
        let exe = exe.clone();
        let dir = dir.clone();
        s.spawn(move || {
          let mut rec = Rec::new();
          let (mut sg, mut sk) = (0u64, 0u64);
          let mut restarts = 0;
          loop {
            let progress = dir.join(format!("progress-{}", shard));
            let partial = dir.join(format!("partial-{}.json", shard));
            let _ = std::fs::remove_file(&partial);
            let _ = std::fs::remove_file(&progress);
            let mut cmd = Command::new(&exe);
            cmd.args(["C09", "--tier", tier, "--seed", &ctx.seed.to_string(), "--scale", &ctx.scale.to_string(), "--stage", &ctx.stage, "--threads", "1"]);
            cmd.args(["--set", "child=1", "--set", &format!("shard={}", shard), "--set", &format!("shards={}", shards)]);
            cmd.args(["--set", &format!("start_g={}", sg), "--set", &format!("start_k={}", sk)]);
            cmd.args(["--set", &format!("progress={}", progress.display()), "--set", &format!("partial={}", partial.display())]);
            if ctx.flag("noaslimit") {
              cmd.args(["--set", "noaslimit=1"]);
            }
            let final_out = dir.join(format!("final-{}.json", shard));
            let _ = std::fs::remove_file(&final_out);
            cmd.args(["--out", &final_out.display().to_string()]);
            let outp = cmd.output();
            let status_ok = matches!(&outp, Ok(o) if o.status.success());
            if status_ok {
              if let Ok(s) = std::fs::read_to_string(&final_out) {
                if let Ok(j) = serde_json::from_str::<Value>(&s) {
                  merge_json(&mut rec, &j);
                  rec.ev("children_completed");
                  break;
                }
              }
            }
            // the child died: attribute to the case it had announced
            let stderr_tail = outp.as_ref().map(|o| String::from_utf8_lossy(&o.stderr).to_string()).unwrap_or_default();
            let how = match &outp {
              Ok(o) => {
                use std::os::unix::process::ExitStatusExt;
                match o.status.signal() {
                  Some(sig) => format!("signal {}", sig),
                  None => format!("exit code {:?}", o.status.code()),
                }
              }
              Err(e) => format!("spawn error {}", e),
            };
            if let Ok(s) = std::fs::read_to_string(&partial) {
              if let Ok(j) = serde_json::from_str::<Value>(&s) {
                merge_json(&mut rec, &j);
              }
            }
            let mut pb = [0u8; 16];
            let known = std::fs::File::open(&progress).ok().and_then(|f| f.read_at(&mut pb, 0).ok()).map(|n| n == 16).unwrap_or(false);
            if !known {
              rec.note("child_died_without_progress", json!({"shard": shard, "how": how, "stderr": stderr_tail.chars().rev().take(600).collect::<String>().chars().rev().collect::<String>()}));
              rec.ev("children_lost(inconclusive)");
              break;
            }
            let g = u64::from_le_bytes(pb[..8].try_into().unwrap());
            let k = u64::from_le_bytes(pb[8..].try_into().unwrap());
            let cases = hostile::group(ctx, g);
            let tail: String = stderr_tail.lines().rev().take(12).collect::<Vec<_>>().into_iter().rev().collect::<Vec<_>>().join("\n");
            if let Some(c) = cases.get(k as usize) {
              rec.ev("aborted");
              rec.violation(
                &format!("abort:{:?}", c.target),
                format!("the process died ({}) while {:?} processed input from another party ({})", how, c.target, c.desc),
                json!({"case": c.to_json(), "how": how, "stderr_tail": tail}),
              );
            }
            restarts += 1;
            if restarts > 25 {
              rec.ev("children_lost(inconclusive)");
              break;
            }
            sg = g;
            sk = k + 1;
          }
          rec
        })
      })
      .collect();
    hs.into_iter().map(|h| h.join().unwrap()).collect()
  });
  for r in results {
    rec.merge(r);
  }
  let _ = std::fs::remove_dir_all(&dir);
  rec.note("groups", json!(n_groups(ctx)));
  rec.note("child_processes", json!(shards));
  rec
}
