//! `mon replay --set file=<replay.json>`: re-executes the oracle on the concrete
//! artefacts stored in a replay file (hostile cases, share collections, report
//! selections). Prints what the real code does with them now. Exit is decided by
//! check.py from the `reproduced` note.

use crate::common::*;
use crate::exec::{exec, model, Outcome};
use crate::hostile::{Case, Target};
use serde_json::{json, Value};

fn target_of(s: &str) -> Option<Target> {
  use Target::*;
  Some(match s {
    "SharksTryFrom" => SharksTryFrom,
    "SharksRecover" => SharksRecover,
    "AdssFromBytes" => AdssFromBytes,
    "AdssRecover" => AdssRecover,
    "StarShareFromBytes" => StarShareFromBytes,
    "MessageFromBytes" => MessageFromBytes,
    "ShareRecover" => ShareRecover,
    "LoadBytes" => LoadBytes,
    "LoadU32" => LoadU32,
    "AccessStructure" => AccessStructure,
    "PkLoad" => PkLoad,
    "ProofLoad" => ProofLoad,
    "JsonPoint" => JsonPoint,
    "JsonEvaluation" => JsonEvaluation,
    "ServerEval" => ServerEval,
    "ClientVerify" => ClientVerify,
    "GroupShares" => GroupShares,
    _ => return None,
  })
}

fn hexes(v: &Value) -> Option<Vec<Vec<u8>>> {
  v.as_array()?.iter().map(|x| unhex(x.as_str()?)).collect()
}

pub fn run(ctx: &Ctx) -> Rec {
  let mut rec = Rec::new();
  let file = match ctx.extra.get("file") {
    Some(f) => f.clone(),
    None => {
      rec.note("replay", json!("no file given"));
      return rec;
    }
  };
  let j: Value = match std::fs::read_to_string(&file).ok().and_then(|s| serde_json::from_str(&s).ok()) {
    Some(j) => j,
    None => {
      rec.note("replay", json!("unreadable replay file"));
      return rec;
    }
  };
  let w = &j["witness"];
  let sig = j["sig"].as_str().unwrap_or("").to_string();
  let mut reproduced: Option<bool> = None;
  let mut what = String::new();
  // 1. hostile case (C08 / C09 / fuzz artefacts)
  let case_json = if w["case"].is_object() { Some(&w["case"]) } else { None };
  if let Some(c) = case_json {
    if let (Some(t), Some(blobs)) = (c["target"].as_str().and_then(target_of), hexes(&c["blobs_hex"])) {
      let case = Case { target: t, desc: c["desc"].as_str().unwrap_or("").into(), blobs, num: c["num"].as_u64().unwrap_or(0) };
      let m = model(&case);
      match guarded(|| exec(&case)) {
        Ok(o) => {
          let bad = match (&m, &o) {
            (Some(None), Outcome::Accepted(_)) => true,
            (Some(Some(_)), Outcome::Rejected) => true,
            (Some(Some(c)), Outcome::Accepted(r)) => c != r,
            _ => false,
          };
          what = format!("{:?} returned {:?}; layout model: {:?}", t, o, m.map(|x| x.map(|b| hex_short(&b))));
          reproduced = Some(bad);
        }
        Err(p) => {
          what = format!("{:?} panicked at {}: {}", t, p.loc, p.msg);
          reproduced = Some(true);
        }
      }
    }
  } else if let (Some(coll), Some(exp)) = (hexes(&w["collection_hex"]), w["expected_message"].as_str().and_then(unhex)) {
    // 2. adss share collection with the message the first share's sharing carries (C05)
    let shares: Option<Vec<adss::Share>> = coll.iter().map(|b| adss::Share::from_bytes(b)).collect();
    let out = match shares {
      None => Err("decode".to_string()),
      Some(s) => guarded(|| adss::recover(&s).map(|c| c.get_message()).map_err(|e| e.to_string())).unwrap_or(Err("panic".into())),
    };
    what = format!("adss::recover -> {:?}; expected message {}", out.as_ref().map(|m| hex_short(m)), hex_short(&exp));
    // as in the monitor: acceptance of an altered first share is only a violation
    // when at least 16 authenticated bytes (|C|+|D|) make a chance match negligible
    let strong = crate::layout::AdssShare::decode(&coll[0]).map(|p| p.c.len() + p.d.len() >= 16).unwrap_or(true);
    reproduced = Some(match &out {
      Ok(m) => m != &exp || (sig.starts_with("altered-first-share-accepted") && strong),
      Err(_) => false,
    });
  } else if let (Some(reps), Some(sel)) = (hexes(&w["reports_hex"]), w["selection"].as_array()) {
    // 3. report selection (C01)
    if !reps.is_empty() {
      let sel: Vec<usize> = sel.iter().filter_map(|x| x.as_u64().map(|v| v as usize)).collect();
      let shares: Option<Vec<sta_rs::Share>> = sel.iter().map(|&i| reps.get(i).and_then(|b| sta_rs::Message::from_bytes(b)).map(|m| m.share)).collect();
      let out = match shares {
        None => Err("decode".to_string()),
        Some(s) => guarded(|| sta_rs::share_recover(&s).map(|c| c.get_message()).map_err(|e| e.to_string())).unwrap_or(Err("panic".into())),
      };
      what = format!("share_recover over selection {:?} -> {:?}", sel, out.as_ref().map(|m| hex_short(m)));
      reproduced = Some(out.is_err());
    }
  }
  println!("REPLAY signature={} file={}", sig, file);
  match reproduced {
    Some(r) => println!("REPLAY re-executed on the recorded artefacts: {}\nREPLAY reproduced={}", what, r),
    None => println!("REPLAY no directly re-executable artefact in this witness; re-running the check at the recorded seed"),
  }
  rec.note("reproduced", json!(reproduced));
  rec.note("what", json!(what));
  rec.evals = 1;
  rec.case(&1u8);
  rec.case(&2u8);
  rec
}
