//! C18 — the reference aggregation server reveals exactly the measurements
//! with >= t reports, independent of input order and worker-pool size.
//! Unique client ids as associated data make exactly-once / no-loss a multiset
//! comparison; the star-test-utils hook records which rayon thread processed
//! which bucket (and injects seeded jitter between tasks).

use crate::common::*;
use rand::seq::SliceRandom;
use rand::Rng;
use rand_chacha::ChaCha20Rng;
use serde_json::json;
use sta_rs::{AssociatedData, Message, MessageGenerator, SingleMeasurement};
use star_test_utils::AggregationServer;
use std::collections::{BTreeMap, HashSet};
use std::sync::atomic::{AtomicU64, Ordering};
use std::sync::Mutex;

static TRACE: Mutex<Vec<(u64, usize)>> = Mutex::new(Vec::new());
static JITTER_NONCE: AtomicU64 = AtomicU64::new(0);

fn install_hook() {
  star_test_utils::verif::set_bucket_hook(Some(Box::new(|tag: &[u8], _n: usize| {
    let th = rayon::current_thread_index().unwrap_or(usize::MAX);
    let hh = h64(&[tag]);
    // seeded jitter between tasks: 0..~200us of spinning or a yield
    let j = h64(&[tag, &JITTER_NONCE.load(Ordering::Relaxed).to_le_bytes()]);
    match j % 4 {
      0 => std::thread::yield_now(),
      1 => {
        let until = std::time::Instant::now() + std::time::Duration::from_micros((j >> 8) % 200);
        while std::time::Instant::now() < until {
          std::hint::spin_loop();
        }
      }
      _ => {}
    }
    TRACE.lock().unwrap().push((hh, th));
  })));
}

/// canonical form of the server output: measurement -> sorted multiset of aux
/// (absent and empty are identified, as the reference server documents)
type Canon = BTreeMap<Vec<u8>, Vec<Vec<u8>>>;

fn canon(out: &[star_test_utils::Output]) -> (Canon, Vec<Vec<u8>>) {
  let mut c: Canon = BTreeMap::new();
  let mut dups = Vec::new();
  for o in out {
    let m = o.x.as_vec();
    let mut auxes: Vec<Vec<u8>> = o.aux.iter().map(|a| a.as_ref().map(|x| x.as_vec()).unwrap_or_default()).collect();
    auxes.sort();
    if c.insert(m.clone(), auxes).is_some() {
      dups.push(m);
    }
  }
  (c, dups)
}

fn scenario(rec: &mut Rec, ctx: &Ctx, idx: u64, rng: &mut ChaCha20Rng) {
  scenario_with(rec, ctx, idx, rng, None)
}

/// every small batch composition around the threshold: the whole batch is one group of
/// exactly t / t-1 / t+1 reports, t singletons, two groups at or just below the threshold, ...
fn small_batches() -> Vec<(u32, Vec<usize>)> {
  let mut out = Vec::new();
  for t in [1u32, 2, 3, 4, 5, 6, 8] {
    let tu = t as usize;
    let mut comps: Vec<Vec<usize>> = vec![vec![tu], vec![tu + 1], vec![tu, 1], vec![1, tu], vec![1; tu], vec![tu, tu], vec![2 * tu], vec![tu, tu + 1, 1]];
    if tu >= 2 {
      comps.extend([vec![tu - 1], vec![tu - 1, 1], vec![tu - 1, tu - 1], vec![tu, tu - 1], vec![1; tu - 1]]);
    }
    for c in comps {
      out.push((t, c));
    }
  }
  out
}

fn scenario_with(rec: &mut Rec, ctx: &Ctx, idx: u64, rng: &mut ChaCha20Rng, fixed: Option<&(u32, Vec<usize>)>) {
  let t: u32 = *pick(rng, &[1u32, 2, 3, 5, 8]);
  let groups: usize = match idx % 8 {
    0 => rng.gen_range(150..=300),
    1 | 2 => rng.gen_range(30..100),
    _ => rng.gen_range(1..24),
  };
  let groups = ((groups as f64) * ctx.scale.min(1.0)).ceil() as usize;
  let (t, groups) = if ctx.flag("tiny") { (2u32, 2usize) } else { (t, groups) };
  let (t, groups) = match fixed {
    Some((ft, fs)) => (*ft, fs.len()),
    None => (t, groups),
  };
  let mut epoch: String = (0..rng.gen_range(0..6)).map(|_| char::from(rng.gen_range(0x61u8..0x7b))).collect();
  // epochs are arbitrary strings: white space at the edges, multi-byte characters, upper case, long
  match idx % 7 {
    1 => epoch = format!(" {}", epoch),
    2 => epoch = format!("{}\n", epoch),
    3 => epoch = format!("\t{} ", epoch),
    4 => epoch = format!("{}\u{e9}\u{4e16}", epoch.to_uppercase()),
    5 => epoch = epoch.repeat(40),
    _ => {}
  }
  let mut expected: Canon = BTreeMap::new();
  let mut messages: Vec<Message> = Vec::new();
  let mut client_id: u64 = 0;
  let mut sizes = Vec::new();
  let mut last_m: Vec<u8> = Vec::new();
  for g in 0..groups {
    let m = if g >= 2 && g % 5 == 4 && !last_m.is_empty() {
      // a sibling of the previous measurement: the same bytes plus trailing zeros
      let mut m = last_m.clone();
      m.extend(vec![0u8; rng.gen_range(1..4)]);
      m
    } else {
      let mut m = rand_bytes_in(rng, 1..40);
      m.extend_from_slice(&(g as u32 + 1).to_be_bytes()); // distinct measurements
      m
    };
    last_m = m.clone();
    // sizes 1..2t around the threshold, with t-1, t, t+1 frequent
    let size = match rng.gen_range(0..6) {
      0 => t.saturating_sub(1).max(1),
      1 => t,
      2 => t + 1,
      _ => rng.gen_range(1..=2 * t),
    } as usize;
    // a few scenarios contain "hot" measurements reported by 64..200 clients
    let size = if idx % 8 == 3 && g < 3 && !ctx.flag("tiny") { rng.gen_range(64..=200) } else { size };
    let size = match fixed {
      Some((_, fs)) => fs[g],
      None => size,
    };
    sizes.push(size);
    let mut auxes: Vec<Vec<u8>> = Vec::new();
    for _ in 0..size {
      client_id += 1;
      let aux: Option<Vec<u8>> = match rng.gen_range(0..8) {
        0 => None,
        1 => Some(vec![]),
        2 => {
          // a unique id padded over several cipher blocks
          let mut v = format!("client-{}-{}-", idx, client_id).into_bytes();
          v.extend(rand_bytes_in(rng, 150..500));
          Some(v)
        }
        _ => Some(format!("client-{}-{}", idx, client_id).into_bytes()),
      };
      let mg = MessageGenerator::new(SingleMeasurement::new(&m), t, epoch.as_bytes());
      let mut rnd = [0u8; 32];
      mg.sample_local_randomness(&mut rnd);
      match Message::generate(&mg, &rnd, aux.as_ref().map(|a| AssociatedData::new(a))) {
        Ok(msg) => messages.push(msg),
        Err(e) => {
          rec.violation("generate-failed", e.to_string(), json!({}));
          return;
        }
      }
      auxes.push(aux.unwrap_or_default());
    }
    if size >= t as usize {
      auxes.sort();
      expected.insert(m, auxes);
    }
  }
  rec.evals += 1;
  rec.case(&("scenario", t, groups, idx));
  rec.evn("reports_generated", messages.len() as u64);
  let server = AggregationServer::new(t, &epoch);
  if idx % 4 == 1 && !messages.is_empty() {
    // a server lives across batches: an earlier batch held a corrupted report for
    // one of the measurements (that call fails; the honest batches afterwards must not)
    let mut poisoned: Vec<Message> = messages.clone();
    for k in 0..poisoned.len().min(3) {
      let mut b = poisoned[k].to_bytes();
      let l = b.len();
      b[l - 40] ^= 0x01; // inside the share's authentication tag
      if let Some(m) = Message::from_bytes(&b) {
        poisoned[k] = m;
      }
    }
    rec.ev("poisoned_batches_before_honest");
    let _ = guarded(|| server.retrieve_outputs(&poisoned));
  }
  let pools: Vec<usize> = if ctx.flag("smallpools") { vec![1, 3] } else { vec![1, 2, 3, 4, 8, 16] };
  let perms = if ctx.flag("tiny") { 1 } else { 3 };
  let mut reference: Option<Canon> = None;
  for &np in &pools {
    let pool = match rayon::ThreadPoolBuilder::new().num_threads(np).build() {
      Ok(p) => p,
      Err(_) => continue,
    };
    for perm in 0..perms {
      let mut input = messages.clone();
      match perm {
        0 => {}
        1 => input.reverse(),
        _ => input.shuffle(rng),
      }
      JITTER_NONCE.fetch_add(1, Ordering::Relaxed);
      TRACE.lock().unwrap().clear();
      rec.evals += 1;
      rec.ev("server_runs");
      rec.case(&("run", idx, np, perm));
      rec.ev(&format!("server_runs_pool{}", np));
      let out = match guarded(|| pool.install(|| server.retrieve_outputs(&input))) {
        Ok(o) => o,
        Err(p) => {
          rec.violation(
            "server-panicked",
            format!("retrieve_outputs panicked on honest reports (pool {}, permutation {}): {} at {}", np, perm, p.msg, p.loc),
            json!({"scenario": idx, "threshold": t, "groups": groups, "pool": np, "permutation": perm}),
          );
          return;
        }
      };
      let trace: Vec<(u64, usize)> = std::mem::take(&mut *TRACE.lock().unwrap());
      // schedules actually seen
      let mut tv = trace.clone();
      tv.sort();
      rec.state(&(np, tv.clone()));
      let workers: HashSet<usize> = trace.iter().map(|x| x.1).collect();
      rec.evn("buckets_observed_by_hook", trace.len() as u64);
      if np > 1 && trace.len() >= 4 {
        rec.ev(&format!("pool{}_runs_with_4plus_buckets", np));
        if workers.len() > 1 {
          rec.ev(&format!("pool{}_runs_on_several_threads", np));
          rec.ev("runs_on_several_worker_threads");
        }
      }
      if trace.len() != expected.len() {
        rec.ev("note:hook_bucket_count_differs_from_expected_groups");
      }
      let (c, dups) = canon(&out);
      let rp = |why: &str| json!({"why": why, "scenario": idx, "seed": ctx.seed, "threshold": t, "epoch": epoch, "groups": groups, "group_sizes": sizes, "pool": np, "permutation": perm, "outputs": out.len(), "expected_outputs": expected.len()});
      if !dups.is_empty() {
        rec.violation("measurement-output-twice", format!("measurement {} appears more than once in the output", hex_short(&dups[0])), rp("duplicate"));
        return;
      }
      if c != expected {
        let missing: Vec<&Vec<u8>> = expected.keys().filter(|k| !c.contains_key(*k)).collect();
        let surplus: Vec<&Vec<u8>> = c.keys().filter(|k| !expected.contains_key(*k)).collect();
        let sig = if !missing.is_empty() {
          "group-missing"
        } else if !surplus.is_empty() {
          "group-below-threshold-revealed"
        } else {
          "associated-data-multiset-differs"
        };
        rec.violation(
          sig,
          format!(
            "server output differs from the expected map: {} group(s) with >= t reports missing, {} group(s) revealed that should not be, {} group(s) with a different multiset of associated data (pool {}, permutation {})",
            missing.len(),
            surplus.len(),
            expected.iter().filter(|(k, v)| c.get(*k).map(|x| x != *v).unwrap_or(false)).count(),
            np,
            perm
          ),
          rp(sig),
        );
        return;
      }
      match &reference {
        None => reference = Some(c),
        Some(r) => {
          if r != &c {
            rec.violation("result-depends-on-order-or-pool", format!("canonical result differs between runs (pool {}, permutation {})", np, perm), rp("order/pool dependence"));
            return;
          }
        }
      }
    }
  }
  if idx < 2 {
    rec.sample(json!({"threshold": t, "groups": groups, "reports": messages.len(), "groups_at_or_above_t": expected.len(), "pools": pools, "permutations": perms, "first_sizes": &sizes[..sizes.len().min(12)]}));
  }
}

pub fn run(ctx: &Ctx) -> Rec {
  install_hook();
  // scenarios run one at a time: each one drives its own rayon pools and the
  // hook trace is global
  let mut c1 = ctx.clone();
  c1.threads = 1;
  let n = if ctx.flag("tiny") { 1 } else { ctx.n(120, 4000) };
  let mut rec = par_run(&c1, "scenario", n, |rec, i, rng| scenario(rec, ctx, i, rng));
  if !ctx.flag("tiny") {
    let sb = small_batches();
    rec.merge(par_run(&c1, "small-batch", sb.len() as u64, |rec, i, rng| {
      rec.ev("small_batch_scenarios");
      scenario_with(rec, ctx, 1_000_000 + i, rng, Some(&sb[i as usize]))
    }));
  }
  star_test_utils::verif::set_bucket_hook(None);
  // a server that never runs buckets on more than one thread (no pool of 2..16 threads was ever
  // seen using a second worker, over dozens of runs with 4+ buckets) has no schedules to observe:
  // independence of the number of worker threads then holds trivially and the schedule-diversity
  // minimums are waived (recorded in the evidence), instead of calling the run starved
  let multi = rec.counters.get("runs_on_several_worker_threads").cloned().unwrap_or(0);
  let chances: u64 = [2u32, 3, 4, 8, 16].iter().map(|np| rec.counters.get(&format!("pool{}_runs_with_4plus_buckets", np)).cloned().unwrap_or(0)).sum();
  if multi == 0 && chances >= 40 {
    rec.evn("server_never_used_more_than_one_thread", 1);
    rec.note("schedule_diversity", json!("waived: the server processed every batch on a single thread"));
  }
  rec
}
