//! C16 — ADSS sharing is deterministic up to the share point; recovery
//! rebuilds the sharing.

use crate::bigfield as bf;
use crate::common::*;
use crate::gen::{content, Content, RATE};
use crate::layout::AdssShare;
use adss::{recover, Commune, Share};
use num_bigint::BigUint;
use rand::seq::SliceRandom;
use rand::Rng;
use rand_chacha::ChaCha20Rng;
use serde_json::json;
use std::collections::HashSet;
use strobe_rs::{SecParam, Strobe};

fn lens(thorough: bool) -> Vec<usize> {
  let mut v = vec![0, 1, 15, 16, 17, 31, 32, 33, RATE - 1, RATE, RATE + 1, 2 * RATE - 1, 2 * RATE, 2 * RATE + 1, 1000];
  if thorough {
    v.push(100_000);
    v.push(20_000);
  }
  v
}

fn case(rec: &mut Rec, ctx: &Ctx, idx: u64, rng: &mut ChaCha20Rng) {
  let thorough = ctx.thorough();
  let t: u32 = if idx % 500 == 7 {
    *pick(rng, &[127u32, 128, 129, 255, 256, 257])
  } else { match idx % 20 {
    0 => 0,
    1 | 2 => 1,
    3 => *pick(rng, if thorough { &[64u32, 100, 128, 255, 256, 257][..] } else { &[64u32, 100, 128][..] }),
    4 | 5 => rng.gen_range(17..=40),
    _ => rng.gen_range(2..=16),
  } };
  let ls = lens(thorough);
  let ml = if rng.gen_bool(0.8) { *pick(rng, &ls) } else { rng.gen_range(0..600) };
  let rl = if rng.gen_bool(0.8) { *pick(rng, &ls) } else { rng.gen_range(0..600) };
  // the huge lengths only with small thresholds
  let (ml, rl) = if t > 16 { (ml.min(1000), rl.min(1000)) } else { (ml, rl) };
  let mc = if rng.gen_bool(0.2) { Content::Zero } else { Content::Uniform };
  let rc = if rng.gen_bool(0.2) { Content::Zero } else { Content::Uniform };
  let m = content(rng, ml, mc);
  let r = content(rng, rl, rc);
  // messages that coincide with another part of the authenticated transcript (the encoded
  // access structure, the coins): "message of any content" includes these
  let m = match idx % 11 {
    3 => { rec.ev("message_equals_threshold_encoding"); t.to_le_bytes().to_vec() }
    6 => { rec.ev("message_equals_threshold_encoding"); let mut v = t.to_le_bytes().to_vec(); if rng.gen_bool(0.5) { v.extend_from_slice(&[0u8; 4]); } else { v = t.to_be_bytes().to_vec(); } v }
    9 => { rec.ev("message_equals_coins"); r.clone() }
    _ => m,
  };
  let ml = m.len();
  rec.evals += 1;
  rec.case(&(t.min(40), ml, rl, mc, rc));
  let rep = |extra: serde_json::Value| json!({"case": idx, "t": t, "message": hex_short(&m), "coins": hex_short(&r), "extra": extra});

  let n = if t == 0 { 4 } else { (t as usize) + 2 };
  // transcript separation must not depend on what was shared before on this thread:
  // in half of the cases the foreign-transcript sharing of the SAME (t, M, R) comes first
  let foreign_tr = {
    let mut tr = Strobe::new(b"some other protocol", SecParam::B128);
    if rng.gen_bool(0.5) {
      tr.ad(&rand_bytes(rng, 8), false);
    }
    tr
  };
  // ... nor on the same (M, R) having just been shared under another threshold
  if idx % 4 == 2 && t >= 1 {
    let t_other = if t > 1 { t - 1 } else { t + 1 };
    for _ in 0..2 {
      let _ = Commune::new(t_other, m.clone(), r.clone(), None).share();
    }
    rec.ev("same_message_other_threshold_first");
  }
  let foreign_first = idx % 2 == 1 && t >= 1;
  let mut foreign_pre: Vec<Share> = Vec::new();
  if foreign_first {
    for _ in 0..t {
      if let Ok(s) = Commune::new(t, m.clone(), r.clone(), Some(foreign_tr.clone())).share() {
        foreign_pre.push(s);
      }
    }
  }
  let mut shares: Vec<Share> = Vec::new();
  for _ in 0..n {
    rec.ev("share");
    match Commune::new(t, m.clone(), r.clone(), None).share() {
      Ok(s) => shares.push(s),
      Err(e) => {
        if t == 0 {
          rec.ev("t0_share_refused");
          return;
        }
        rec.violation("share-failed", format!("share() failed for t={} |M|={} |R|={}: {}", t, ml, rl, e), rep(json!({})));
        return;
      }
    }
  }
  // --- determinism of everything but the point
  let enc: Vec<Vec<u8>> = shares.iter().map(|s| s.to_bytes()).collect();
  let parsed: Vec<AdssShare> = match enc.iter().map(|b| AdssShare::decode(b)).collect::<Option<Vec<_>>>() {
    Some(p) => p,
    None => {
      rec.violation("layout", "an honest share does not parse under the documented layout".into(), rep(json!({"share": hex_short(&enc[0])})));
      return;
    }
  };
  for (i, p) in parsed.iter().enumerate() {
    rec.ev("determinism_check");
    if p.t != t {
      rec.violation("threshold-field", format!("share {} records threshold {} for a sharing with threshold {}", i, p.t, t), rep(json!({})));
    }
    if p.c != parsed[0].c || p.d != parsed[0].d || p.j != parsed[0].j || p.t != parsed[0].t {
      let which = if p.c != parsed[0].c { "C" } else if p.d != parsed[0].d { "D" } else if p.j != parsed[0].j { "J" } else { "threshold" };
      rec.violation(
        &format!("nondeterministic:{}", which),
        format!("field {} differs between two independent share() calls of one (threshold, message, coins)", which),
        rep(json!({"share0": hex_short(&enc[0]), "share_i": hex_short(&enc[i]), "i": i})),
      );
      return;
    }
    if p.c.len() != ml || p.d.len() != rl {
      rec.violation("field-length", format!("|C|={} |D|={} for |M|={} |R|={}", p.c.len(), p.d.len(), ml, rl), rep(json!({})));
    }
  }
  let xs: HashSet<[u8; 24]> = parsed.iter().map(|p| p.s.x).collect();
  if xs.len() != parsed.len() {
    rec.violation("share-point-repeat", "two independent share() calls used the same evaluation point".into(), rep(json!({})));
  }
  // --- one polynomial of degree t-1
  if t >= 1 && t <= 40 && parsed.iter().all(|p| p.s.ys.len() == parsed[0].s.ys.len()) {
    for e in 0..parsed[0].s.ys.len() {
      let pts: Vec<(BigUint, BigUint)> = parsed.iter().map(|p| (p.s.x_int(), p.s.y_int(e))).collect();
      rec.ev("polynomial_check");
      if let Some(co) = bf::interpolate_coeffs(&pts[..t as usize]) {
        for (x, y) in &pts[t as usize..] {
          if bf::eval_low_first(&co, x) != *y {
            rec.violation("not-one-polynomial", format!("independent shares of one sharing do not lie on one polynomial of degree {}", t - 1), rep(json!({})));
            return;
          }
        }
      }
    }
  }
  // --- t = 0 never recovers
  if t == 0 {
    for k in 1..=shares.len() {
      rec.ev("recover_t0");
      if let Some(Ok(c)) = quiet(rec, || recover(&shares[..k]).map(|c| c.get_message()).map_err(|e| e.to_string())) {
        rec.violation("t0-recovers", format!("threshold 0 recovered {} from {} shares", hex_short(&c), k), rep(json!({})));
      }
    }
    return;
  }
  // --- a receiver sees refused collections too; none of them may influence the
  //     honest recoveries that follow on the same thread
  if idx % 3 == 1 {
    use crate::layout::AdssShare as L;
    let base = parsed[0].clone();
    let mk = |f: &dyn Fn(&mut L, usize)| -> Vec<Share> {
      (0..(t as usize).max(2))
        .filter_map(|i| {
          let mut a = parsed[i.min(parsed.len() - 1)].clone();
          f(&mut a, i);
          Share::from_bytes(&a.encode())
        })
        .collect()
    };
    let no_y = mk(&|a, _| a.s.ys.clear());
    let mixed = mk(&|a, i| {
      if i % 2 == 1 {
        a.s.ys.push([1u8; 24]);
      }
    });
    let bad_mac = mk(&|a, _| a.j[0] ^= 1);
    let dup_only = mk(&|a, _| a.s = base.s.clone());
    let t_zero = mk(&|a, _| a.t = 0);
    for (what, coll) in [("no-y", no_y), ("mixed-y", mixed), ("bad-mac", bad_mac), ("duplicates", dup_only), ("threshold-0", t_zero), ("empty", vec![])] {
      rec.ev("refused_recoveries_before_honest");
      let r = quiet(rec, || recover(&coll).map(|c| c.get_message()).map_err(|e| e.to_string()));
      if let Some(Ok(mm)) = r {
        if what != "duplicates" || t > 1 {
          if mm != m {
            rec.violation("recover-wrong", format!("a refused-shape collection ({}) recovered {}", what, hex_short(&mm)), rep(json!({"shape": what})));
            return;
          }
        }
      }
      // ... and the very next honest recovery on this thread is unaffected by it
      if t >= 1 {
        let honest: Vec<Share> = shares[..t as usize].to_vec();
        rec.ev("honest_recovery_after_refused");
        match recover(&honest) {
          Ok(c) if c.get_message() == m => {}
          other => {
            rec.violation(
              "recover-failed:after-refused-collection",
              format!("t honest shares failed to recover right after a refused collection of shape {}: {:?}", what, other.map(|c| hex_short(&c.get_message())).map_err(|e| e.to_string())),
              rep(json!({"shape": what})),
            );
            return;
          }
        }
      }
    }
  }
  // --- any t distinct shares recover exactly M
  let mut order: Vec<usize> = (0..n).collect();
  let mut recovered: Option<Commune> = None;
  for round in 0..3 {
    order.shuffle(rng);
    let sel: Vec<Share> = order[..t as usize].iter().map(|&i| shares[i].clone()).collect();
    rec.ev("recover");
    match recover(&sel) {
      Ok(c) => {
        if c.get_message() != m {
          rec.violation("recover-wrong", format!("recovered {} instead of the message", hex_short(&c.get_message())), rep(json!({"selection": &order[..t as usize]})));
          return;
        }
        recovered = Some(c);
      }
      Err(e) => {
        rec.violation("recover-failed", format!("t={} distinct shares failed to recover (round {}): {}", t, round, e), rep(json!({"selection": &order[..t as usize]})));
        return;
      }
    }
  }
  // --- shares of the SAME sharing on chosen, structured evaluation points (computed from the
  // polynomial the honest shares lie on, wrapped in the genuine wire format): exactly t of
  // them, with pairwise distinct points, recover the message like any other t shares
  if t >= 1 && t <= 16 && idx % 2 == 0 && parsed.len() >= t as usize && parsed.iter().all(|a| a.s.ys.len() == parsed[0].s.ys.len()) {
    let k = parsed[0].s.ys.len();
    let mut cos: Vec<Vec<BigUint>> = Vec::new();
    for j in 0..k {
      let pts: Vec<(BigUint, BigUint)> = parsed[..t as usize].iter().map(|a| (a.s.x_int(), a.s.y_int(j))).collect();
      if let Some(c) = bf::interpolate_coeffs(&pts) {
        cos.push(c);
      }
    }
    if cos.len() == k {
      let one = BigUint::from(1u8);
      let p = bf::p();
      let sh = |k: usize| -> BigUint { BigUint::from(1u8) << k };
      let two128: BigUint = sh(128);
      let a_small = BigUint::from(*pick(rng, &[1u32, 2, 77, 255, 12450]));
      let mut pool: Vec<BigUint> = vec![
        a_small.clone(), &two128 + &a_small, one.clone(), BigUint::from(2u8), BigUint::from(256u32), BigUint::from(65536u32), sh(32),
        sh(64) - &one, sh(64), sh(64) + &one, sh(127), &two128 - &one, two128.clone(), &two128 + &one,
        &two128 + BigUint::from(12450u32), BigUint::from(12450u32), &p - &one, &p - BigUint::from(2u8), sh(127) + sh(64),
      ];
      pool.dedup();
      let mut seen = HashSet::new();
      pool.retain(|x| seen.insert(x.to_bytes_le()));
      // the congruent pair (a, 2^128 + a) is always taken when t >= 2; the rest is shuffled
      let (head, tail) = pool.split_at_mut(2);
      tail.shuffle(rng);
      let _ = head;
      let xs: Vec<BigUint> = if t >= 2 { pool[..t as usize].to_vec() } else { vec![pool[rng.gen_range(0..pool.len())].clone()] };
      let mut crafted: Vec<Share> = Vec::new();
      for x in &xs {
        let mut a = parsed[0].clone();
        a.s.x = bf::to_le24(x);
        a.s.ys = (0..k).map(|j| bf::to_le24(&bf::eval_low_first(&cos[j], x))).collect();
        match Share::from_bytes(&a.encode()) {
          Some(sh) => crafted.push(sh),
          None => break,
        }
      }
      if crafted.len() == xs.len() {
        crafted.shuffle(rng);
        rec.ev("recover_chosen_points");
        match recover(&crafted) {
          Ok(c) if c.get_message() == m => {}
          other => {
            rec.violation(
              "recover-failed:chosen-points",
              format!("t={} shares of the sharing on pairwise distinct structured points did not recover the message: {:?}", t, other.map(|c| hex_short(&c.get_message())).map_err(|e| e.to_string())),
              rep(json!({"points": xs.iter().map(|x| x.to_string()).collect::<Vec<_>>(), "shares_hex": crafted.iter().map(|s| hex(&s.to_bytes())).collect::<Vec<_>>() })),
            );
            return;
          }
        }
      }
    }
  }
  // >= t distinct points with repeated shares anywhere in the list
  if t >= 2 && t <= 16 {
    for pat in [crate::gen::SelPattern::DupsAnywhere, crate::gen::SelPattern::DupsFront, crate::gen::SelPattern::Surplus] {
      let sel = crate::gen::selection(rng, n, t as usize, pat);
      let picked: Vec<Share> = sel.iter().map(|&i| shares[i].clone()).collect();
      rec.ev("recover_with_repeats");
      match recover(&picked) {
        Ok(c) if c.get_message() == m => {}
        other => {
          rec.violation(
            &format!("recover-failed:{:?}", pat),
            format!("a list holding >= t={} distinct shares (pattern {:?}) did not recover the message: {:?}", t, pat, other.map(|c| hex_short(&c.get_message())).map_err(|e| e.to_string())),
            rep(json!({"selection": sel})),
          );
          return;
        }
      }
    }
  }
  // t-1 distinct never recover M
  if t >= 2 {
    let sel: Vec<Share> = order[..t as usize - 1].iter().map(|&i| shares[i].clone()).collect();
    rec.ev("recover_below");
    if let Some(Ok(mm)) = quiet(rec, || recover(&sel).map(|c| c.get_message()).map_err(|e| e.to_string())) {
      rec.violation("recover-below-threshold", format!("t-1 shares recovered {}", hex_short(&mm)), rep(json!({})));
    }
  }
  // --- the recovered sharing is the original one: re-share and mix
  let rc = recovered.unwrap();
  let mut mixed: Vec<Share> = Vec::new();
  let k_new = rng.gen_range(1..=t as usize);
  for _ in 0..k_new {
    rec.ev("reshare");
    match rc.clone().share() {
      Ok(s) => {
        let b = s.to_bytes();
        if let Some(p) = AdssShare::decode(&b) {
          if p.c != parsed[0].c || p.d != parsed[0].d || p.j != parsed[0].j || p.t != t {
            rec.violation("reshare-differs", "a share produced from the recovered sharing differs from the original sharing in a deterministic field".into(), rep(json!({"reshared": hex_short(&b)})));
            return;
          }
        }
        mixed.push(s)
      }
      Err(e) => {
        rec.violation("reshare-failed", format!("{}", e), rep(json!({})));
        return;
      }
    }
  }
  for i in 0..(t as usize - k_new) {
    mixed.push(shares[order[i]].clone());
  }
  mixed.shuffle(rng);
  rec.ev("recover_mixed");
  match recover(&mixed) {
    Ok(c) if c.get_message() == m => {}
    other => {
      rec.violation(
        "reshare-not-combinable",
        format!("{} re-shared + {} original shares do not recover the message: {:?}", k_new, t as usize - k_new, other.map(|c| hex_short(&c.get_message())).map_err(|e| e.to_string())),
        rep(json!({})),
      );
      return;
    }
  }
  // --- transcript separation
  if idx % 3 == 0 || foreign_first {
    let tr = foreign_tr.clone();
    let mut foreign: Vec<Share> = foreign_pre.clone();
    while foreign.len() < t as usize {
      match Commune::new(t, m.clone(), r.clone(), Some(tr.clone())).share() {
        Ok(s) => foreign.push(s),
        Err(_) => return,
      }
    }
    rec.ev("recover_foreign_transcript");
    if let Some(Ok(mm)) = quiet(rec, || recover(&foreign).map(|c| c.get_message()).map_err(|e| e.to_string())) {
      rec.violation("foreign-transcript-accepted", format!("shares created under a different authenticated transcript recovered {}", hex_short(&mm)), rep(json!({})));
    }
    // one genuine share first, completed with shares made under the foreign transcript
    // (asserted with >= 16 authenticated bytes only: with |M|+|R| = 0 a wrong key has
    // nothing to decrypt and the genuine MAC verifies legitimately - soundness rule 2)
    if t >= 2 && ml + rl >= 16 {
      let mut mixed: Vec<Share> = vec![shares[0].clone()];
      mixed.extend(foreign.iter().take(t as usize - 1).cloned());
      rec.ev("recover_mixed_transcripts");
      if let Some(Ok(mm)) = quiet(rec, || recover(&mixed).map(|c| c.get_message()).map_err(|e| e.to_string())) {
        rec.violation(
          "foreign-transcript-shares-combine",
          format!("one genuine share plus t-1 shares created under a different authenticated transcript recovered {}", hex_short(&mm)),
          rep(json!({"foreign_first": foreign_first})),
        );
      }
    }
  }
  if idx < 2 {
    rec.sample(json!({"t": t, "message_len": ml, "coins_len": rl, "shares": n, "encoded_share_len": enc[0].len(), "x0": hex(&parsed[0].s.x)}));
  }
}

/// every threshold 1..=T once: t independent share() calls, recovery from exactly
/// those t shares in shuffled order, and from t-1 of them
fn threshold_sweep(rec: &mut Rec, _ctx: &Ctx, t: u64, rng: &mut ChaCha20Rng) {
  let t = t as u32 + 1;
  let m = rand_bytes_in(rng, 1..48);
  let r = rand_bytes_in(rng, 16..48);
  rec.evals += 1;
  rec.ev("threshold_sweep");
  rec.case(&("threshold", t));
  let mut shares: Vec<Share> = Vec::with_capacity(t as usize);
  for _ in 0..t {
    rec.ev("share");
    match Commune::new(t, m.clone(), r.clone(), None).share() {
      Ok(s) => shares.push(s),
      Err(e) => {
        rec.violation("share-failed", format!("threshold {}: {}", t, e), json!({"t": t}));
        return;
      }
    }
  }
  shares.shuffle(rng);
  let rp = json!({"t": t, "message": hex(&m), "coins": hex(&r)});
  rec.ev("recover");
  match recover(&shares) {
    Ok(c2) if c2.get_message() == m => {}
    Ok(_) => rec.violation("recover-wrong:threshold-sweep", format!("threshold {}: t independent shares recovered another message", t), rp.clone()),
    Err(e) => rec.violation("recover-failed:threshold-sweep", format!("threshold {}: t independent shares with distinct points do not recover: {}", t, e), rp.clone()),
  }
  if t >= 2 {
    rec.ev("recover_below");
    if recover(&shares[1..]).is_ok() {
      rec.violation("recovered-below-threshold:threshold-sweep", format!("threshold {}: t-1 shares recovered", t), rp);
    }
  }
}

pub fn run(ctx: &Ctx) -> Rec {
  let mut rec = par_run(ctx, "sharing", ctx.n(6000, 100_000), |rec, i, rng| case(rec, ctx, i, rng));
  let tmax: u64 = (((if ctx.thorough() { 1024 } else { 320 }) as f64) * ctx.scale.min(1.0)).ceil() as u64;
  rec.merge(par_run(ctx, "threshold-sweep", tmax, |rec, i, rng| threshold_sweep(rec, ctx, tmax - 1 - i, rng)));
  rec.note("threshold_sweep_max", json!(tmax));
  rec
}
