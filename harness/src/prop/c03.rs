//! C03 — associated data confidential below threshold (no keystream reuse).
//! M1 clear-text scan of aux, M2 every report window tried as key / key seed,
//! M3 XOR-relation monitor over pairs and sequences of reports.

use crate::common::*;
use crate::layout::{self, Report};
use rand::Rng;
use rand_chacha::ChaCha20Rng;
use serde_json::json;
use sta_rs::{derive_ske_key, share_recover, AssociatedData, Ciphertext, Message, MessageGenerator, Share, SingleMeasurement};

/// the sponge width in bytes: a duplex construction cannot keep the keystreams
/// of two diverged ciphertexts aligned beyond one permutation block
const BOUND: usize = 200;

struct Rep {
  aux: Vec<u8>,
  msg: Message,
  bytes: Vec<u8>,
  ct: Vec<u8>,
  payload: Vec<u8>,
}

fn reports(rng: &mut ChaCha20Rng, m: &[u8], e: &[u8], t: u32, auxes: Vec<Vec<u8>>) -> Result<Vec<Rep>, String> {
  let mut out = Vec::new();
  let _ = rng;
  for a in auxes {
    let mg = MessageGenerator::new(SingleMeasurement::new(m), t, e);
    let mut rnd = [0u8; 32];
    mg.sample_local_randomness(&mut rnd);
    let msg = Message::generate(&mg, &rnd, Some(AssociatedData::new(&a))).map_err(|e| e.to_string())?;
    let bytes = msg.to_bytes();
    let ct = msg.ciphertext.to_bytes();
    let payload = layout::frame_payload(m, Some(&a));
    out.push(Rep { aux: a, msg, bytes, ct, payload });
  }
  Ok(out)
}

fn xor_case(rec: &mut Rec, ctx: &Ctx, idx: u64, rng: &mut ChaCha20Rng) {
  let t = rng.gen_range(2..=6u32);
  let ml = *pick(rng, &[0usize, 1, 8, 16, 32, 100, 158, 162, 166, 170, 340]);
  let m = rand_bytes(rng, ml);
  let e = crate::gen::epoch(rng);
  let maxaux = if ctx.thorough() { 2048 } else { 600 };
  // now and then payloads of several KiB (beyond any internal buffer or segment size)
  let huge = idx % 25 == 7;
  let maxaux = if huge { 9000 } else { maxaux };
  let k = if huge { 2 } else { rng.gen_range(2..=5usize) };
  // sequences of reports by clients sharing the measurement with differing aux;
  // every 3rd case forces long tails so that unbounded reuse would be visible
  let long = idx % 3 == 0;
  let mut auxes: Vec<Vec<u8>> = Vec::new();
  let common_prefix = if rng.gen_bool(0.5) { rand_bytes_in(rng, 0..40) } else { vec![] };
  for _ in 0..k {
    let len = if huge { rng.gen_range(4100..=maxaux) } else if long { rng.gen_range(300..=maxaux) } else { rng.gen_range(1..=maxaux.min(400)) };
    let mut a = common_prefix.clone();
    a.extend(rand_bytes(rng, len));
    auxes.push(a);
  }
  // equal-length pair differing in one byte only (the classic two-time pad probe)
  if idx % 2 == 0 {
    let mut a2 = auxes[0].clone();
    let pos = rng.gen_range(0..a2.len());
    a2[pos] ^= 0x5a;
    auxes.push(a2);
  }
  rec.evals += 1;
  let reps = match reports(rng, &m, &e, t, auxes) {
    Ok(r) => r,
    Err(er) => {
      rec.violation("generate-failed", er, json!({}));
      return;
    }
  };
  rec.case(&("xor", ml, long, reps.len()));
  // inside ONE report: no two stretches of the ciphertext are encrypted under the same keystream
  for r in reps.iter().filter(|r| r.ct.len() == r.payload.len() && r.ct.len() >= 400) {
    let n = r.ct.len();
    rec.ev("reports_scanned_for_internal_reuse");
    for shift in [166usize, 200, 256, 332, 512, 1024, 2048, 4096, 8192] {
      let mut o = 0usize;
      while o + shift + 16 <= n {
        if (0..16).all(|q| (r.ct[o + q] ^ r.ct[o + shift + q]) == (r.payload[o + q] ^ r.payload[o + shift + q])) {
          rec.violation(
            "keystream-reuse:within-report",
            format!("one report: c[i]^c[i+{}] == p[i]^p[i+{}] on 16 bytes at offset {}: two stretches of the payload share their keystream", shift, shift, o),
            json!({"case": idx, "measurement": hex(&m), "epoch": hex(&e), "threshold": t, "shift": shift, "offset": o, "payload_len": n, "ciphertext": hex_short(&r.ct)}),
          );
          return;
        }
        o += 1;
      }
    }
  }
  for i in 0..reps.len() {
    // the ciphertext must have the payload's length (nothing but length is revealed, and nothing less)
    if reps[i].ct.len() != reps[i].payload.len() {
      rec.ev("ciphertext_length_differs_from_payload(noted)");
    }
    for j in i + 1..reps.len() {
      let (a, b) = (&reps[i], &reps[j]);
      if a.aux == b.aux {
        continue;
      }
      rec.evals += 1;
      rec.case(&("pair", idx, i, j));
      rec.ev("pair_examined");
      let n = a.ct.len().min(b.ct.len()).min(a.payload.len()).min(b.payload.len());
      let d = match (0..n).find(|&o| a.payload[o] != b.payload[o]) {
        Some(d) => d,
        None => continue,
      };
      let mut run = 0usize;
      while d + run < n && (a.ct[d + run] ^ b.ct[d + run]) == (a.payload[d + run] ^ b.payload[d + run]) {
        run += 1;
      }
      let tail_beyond = n - (d + run);
      if n - d >= BOUND + 64 {
        rec.ev("pairs_with_long_tail");
      }
      // beyond the first sponge block after the difference the two keystreams are unrelated:
      // the relation must not come back on any 16-byte window further on (e.g. at a segment start)
      {
        let mut o = d + BOUND + 16;
        let mut hit = None;
        while o + 16 <= n {
          if (0..16).all(|q| (a.ct[o + q] ^ b.ct[o + q]) == (a.payload[o + q] ^ b.payload[o + q])) {
            hit = Some(o);
            break;
          }
          o += 1;
        }
        rec.ev("pair_tails_scanned_for_resumed_reuse");
        if let Some(o) = hit {
          rec.violation(
            "keystream-reuse:resumed",
            format!("two reports of one measurement: c1^c2 == p1^p2 again on 16 bytes at offset {} ({} bytes after the first differing byte): the keystream restarts", o, o - d),
            json!({"case": idx, "measurement": hex(&m), "epoch": hex(&e), "threshold": t, "first_difference": d, "offset": o, "payload_len": n,
                   "ciphertext1": hex_short(&a.ct), "ciphertext2": hex_short(&b.ct)}),
          );
          return;
        }
      }
      if run >= 8 {
        let unbounded = run > BOUND;
        let sig = if unbounded { "keystream-reuse:unbounded" } else { "keystream-reuse:bounded" };
        rec.violation(
          sig,
          format!(
            "two reports of one measurement with different associated data: c1^c2 == p1^p2 on {} bytes from the first differing payload byte (offset {}); {} bytes follow on which the relation {}",
            run,
            d,
            tail_beyond,
            if tail_beyond > 0 { "fails" } else { "could not be observed (payload ends)" }
          ),
          json!({"case": idx, "measurement": hex(&m), "epoch": hex(&e), "threshold": t, "aux1": hex_short(&a.aux), "aux2": hex_short(&b.aux),
                 "first_difference": d, "run": run, "tail_beyond": tail_beyond,
                 "ciphertext1": hex_short(&a.ct), "ciphertext2": hex_short(&b.ct)}),
        );
        if !unbounded {
          rec.ev("bounded_runs_observed");
          if tail_beyond >= 64 {
            rec.ev("bounded_runs_with_failing_tail");
          }
        }
      } else {
        rec.ev("pair_without_relation");
      }
    }
  }
  if idx < 1 {
    rec.sample(json!({"measurement_len": ml, "aux_lens": reps.iter().map(|r| r.aux.len()).collect::<Vec<_>>(), "ciphertext0": hex_short(&reps[0].ct)}));
  }
}

/// decrypt the share's encrypted message with a candidate sharing key (the
/// adss share carries Enc_K(message); K is what the t shares interpolate to)
fn open_share_message(k16: &[u8], c: &[u8]) -> Vec<u8> {
  use strobe_rs::{SecParam, Strobe};
  let mut s = Strobe::new(b"adss encrypt", SecParam::B128);
  s.key(k16, false);
  let mut m = c.to_vec();
  s.recv_enc(&mut m, false);
  m
}

fn window_case(rec: &mut Rec, _ctx: &Ctx, idx: u64, rng: &mut ChaCha20Rng) {
  // mostly small thresholds; every 6th case sits at / beyond the 7-bit boundary
  let t = if idx % 6 == 5 { *pick(rng, &[127u32, 128, 129, 200]) } else { rng.gen_range(2..=5u32) };
  let m = rand_bytes_pick(rng, &[8usize, 16, 32, 64]);
  let e = crate::gen::epoch(rng);
  let al = *pick(rng, &[8usize, 9, 16, 31, 32, 64, 120, 200, 340, 700]);
  let al = if t > 10 { al.min(64) } else { al };
  let auxes: Vec<Vec<u8>> = (0..t).map(|_| rand_bytes(rng, al)).collect();
  rec.evals += 1;
  rec.case(&("window", t, m.len(), al));
  let reps = match reports(rng, &m, &e, t, auxes) {
    Ok(r) => r,
    Err(er) => {
      rec.violation("generate-failed", er, json!({}));
      return;
    }
  };
  // positive control: the true key (public API, after reaching the threshold) decrypts
  let shares: Vec<Share> = reps.iter().map(|r| r.msg.share.clone()).collect();
  let seed = match share_recover(&shares) {
    Ok(c) => c.get_message(),
    Err(_) => {
      rec.control("true_key_decrypts", false);
      return;
    }
  };
  let mut key = vec![0u8; 16];
  derive_ske_key(&seed, &e, &mut key);
  let r0 = &reps[0];
  let plain = r0.msg.ciphertext.decrypt(&key, "star_encrypt");
  let ok = layout::parse_payload(&plain) == Some((m.clone(), Some(r0.aux.clone())));
  rec.control("true_key_decrypts", ok);

  // calibration of the "window as sharing key" attacker: the TRUE sharing key
  // (BigUint interpolation of the t share points) must open the share's
  // encrypted message to the recovered key seed; otherwise no opinion
  let parsed: Vec<layout::AdssShare> = reps.iter().filter_map(|r| Report::decode(&r.bytes)).map(|r| r.share).collect();
  let mut sharing_key_attacker = false;
  if parsed.len() == reps.len() && parsed.iter().all(|p| p.s.ys.len() == 1) {
    let pts: Vec<(num_bigint::BigUint, num_bigint::BigUint)> = parsed.iter().map(|p| (p.s.x_int(), p.s.y_int(0))).collect();
    if let Some(k) = crate::bigfield::lagrange_at_zero(&pts) {
      let k24 = crate::bigfield::to_le24(&k);
      sharing_key_attacker = open_share_message(&k24[..16], &parsed[0].c) == seed;
    }
  }
  rec.ev(if sharing_key_attacker { "sharing_key_attacker_calibrated" } else { "sharing_key_attacker_has_no_opinion" });
  for (ri, r) in reps.iter().enumerate().take(2) {
    // M1: aux in the clear
    rec.ev("aux_scan");
    if let Some((j, off)) = find_any_window(&r.bytes, &r.aux, 8) {
      rec.violation(
        "cleartext:associated-data",
        format!("bytes {}.. of the associated data ({} bytes, uniform) occur in the clear at offset {} of the encoded report", j, r.aux.len(), off),
        json!({"case": idx, "report": hex_short(&r.bytes), "aux": hex(&r.aux), "aux_offset": j, "report_offset": off}),
      );
    }
    let ct = Ciphertext::from_bytes(&r.ct);
    let hit = |rec: &mut Rec, k: &[u8], how: &str, off: usize| {
      let p = ct.decrypt(k, "star_encrypt");
      if let Some((mm, _)) = layout::parse_payload(&p) {
        if mm == m {
          rec.violation(
            &format!("report-carried-key:{}", how),
            format!("the {} at byte offset {} of the encoded report decrypts the report's own payload", how, off),
            json!({"case": idx, "report_index": ri, "offset": off, "report": hex_short(&r.bytes)}),
          );
        }
      }
    };
    let b = &r.bytes;
    for off in 0..b.len().saturating_sub(15) {
      rec.evals += 1;
      rec.ev("window_as_key");
      hit(rec, &b[off..off + 16], "16-byte window used as key", off);
    }
    if sharing_key_attacker {
      for off in 0..b.len().saturating_sub(15) {
        rec.ev("window_as_sharing_key");
        let cand_seed = open_share_message(&b[off..off + 16], &parsed[ri].c);
        if cand_seed.len() == 32 {
          let mut k = vec![0u8; 16];
          derive_ske_key(&cand_seed, &e, &mut k);
          hit(rec, &k, "16-byte window used as sharing key", off);
        }
      }
    }
    for off in 0..b.len().saturating_sub(31) {
      rec.ev("window_as_seed");
      let mut k = vec![0u8; 16];
      derive_ske_key(&b[off..off + 32], &e, &mut k);
      hit(rec, &k, "32-byte window used as key seed", off);
    }
    // XOR combinations of the 32-byte fields carried in the report (C, D, tag, J halves)
    if let Some(rep) = Report::decode(b) {
      let mut fields: Vec<(&str, Vec<u8>)> = Vec::new();
      if rep.share.c.len() == 32 {
        fields.push(("C", rep.share.c.clone()));
      }
      if rep.share.d.len() == 32 {
        fields.push(("D", rep.share.d.clone()));
      }
      if rep.tag.len() == 32 {
        fields.push(("tag", rep.tag.clone()));
      }
      fields.push(("J[..32]", rep.share.j[..32].to_vec()));
      fields.push(("J[32..]", rep.share.j[32..].to_vec()));
      let n = fields.len();
      for mask in 1u32..(1 << n) {
        if mask.count_ones() < 2 {
          continue;
        }
        let mut x = vec![0u8; 32];
        let mut names = Vec::new();
        for (i, (nm, f)) in fields.iter().enumerate() {
          if mask & (1 << i) != 0 {
            names.push(*nm);
            for (a, b) in x.iter_mut().zip(f.iter()) {
              *a ^= *b;
            }
          }
        }
        rec.ev("field_xor_as_seed");
        let mut k = vec![0u8; 16];
        derive_ske_key(&x, &e, &mut k);
        hit(rec, &k, "XOR of report fields used as key seed", mask as usize);
        hit(rec, &x[..16], "XOR of report fields used as key", mask as usize);
        let _ = names;
      }
    }
    // the tag specifically (documented public field)
    if let Some(rep) = Report::decode(b) {
      if rep.tag.len() == 32 {
        let mut k = vec![0u8; 16];
        derive_ske_key(&rep.tag, &e, &mut k);
        hit(rec, &k, "public tag used as key seed", 0);
      }
    }
  }
  if idx < 1 {
    rec.sample(json!({"report_len": reps[0].bytes.len(), "windows_tried": reps[0].bytes.len() * 2}));
  }
}

/// An attacker who knows only PART of the victim's measurement (a prefix, all but the
/// last byte, the text up to its case or padding) submits reports of measurements of
/// its own choosing: together with the victim's single report they must not open the
/// victim's payload, and neither must the attacker's own key.
fn related_case(rec: &mut Rec, _ctx: &Ctx, idx: u64, rng: &mut ChaCha20Rng) {
  let t = rng.gen_range(2..=4u32);
  let ml = *pick(rng, &[2usize, 8, 16, 31, 32, 33, 40, 64, 65, 100, 166, 200, 300]);
  let m: Vec<u8> = if idx % 3 == 0 { (0..ml).map(|_| rng.gen_range(b'a'..=b'z')).collect() } else { rand_bytes(rng, ml) };
  let e = crate::gen::epoch(rng);
  let aux = rand_bytes_in(rng, 8..48);
  let victim = match reports(rng, &m, &e, t, vec![aux.clone()]) {
    Ok(mut r) => r.remove(0),
    Err(er) => {
      rec.violation("generate-failed", er, json!({}));
      return;
    }
  };
  rec.evals += 1;
  rec.case(&("related", ml, t, idx % 3));
  let mut related: Vec<(String, Vec<u8>)> = Vec::new();
  for p in [1usize, 8, 16, 24, 31, 32, 33, 48, 63, 64, 65, 128, 165, 166, 167, ml.saturating_sub(1)] {
    if p < ml {
      let mut v = m[..p].to_vec();
      v.extend(rand_bytes(rng, ml - p));
      related.push((format!("same first {} bytes", p), v));
      related.push((format!("first {} bytes only", p), m[..p].to_vec()));
      let mut w = rand_bytes(rng, p);
      w.extend_from_slice(&m[p..]);
      related.push((format!("same last {} bytes", ml - p), w));
    }
  }
  let mut z = m.clone();
  z.push(0);
  related.push(("one NUL appended".into(), z));
  let mut z = m.clone();
  z.extend_from_slice(b"  ");
  related.push(("blanks appended".into(), z));
  related.push(("upper case".into(), m.to_ascii_uppercase()));
  related.push(("empty".into(), vec![]));
  related.retain(|(_, v)| v != &m);
  for (kind, m2) in related {
    rec.ev("related_measurement_attacks");
    let att = match reports(rng, &m2, &e, t, (0..t).map(|i| vec![i as u8; 4]).collect()) {
      Ok(r) => r,
      Err(_) => continue,
    };
    let opens = |key: &[u8]| -> bool { layout::parse_payload(&victim.msg.ciphertext.decrypt(key, "star_encrypt")) == Some((m.clone(), Some(aux.clone()))) };
    let rp = |how: &str| json!({"how": how, "relation": kind, "threshold": t, "victim_measurement": hex(&m), "attacker_measurement": hex(&m2), "epoch": hex(&e), "victim_report": hex(&victim.bytes)});
    // (a) the attacker's own key (t reports of ITS measurement)
    let own: Vec<Share> = att.iter().map(|r| r.msg.share.clone()).collect();
    if let Ok(c) = share_recover(&own) {
      let mut k = vec![0u8; 16];
      derive_ske_key(&c.get_message(), &e, &mut k);
      if opens(&k) {
        rec.violation(
          "aux-revealed:related-measurement",
          format!("the key of a different measurement ({}) decrypts the victim's single report", kind),
          rp("attacker's own key"),
        );
        return;
      }
    }
    if victim.msg.tag == att[0].msg.tag {
      rec.violation("aux-revealed:related-measurement:same-tag", format!("a different measurement ({}) carries the victim's tag", kind), rp("tag"));
      return;
    }
    // (b) the victim's share joined by t-1 (and t) attacker shares, victim first / last
    for n_att in [t as usize - 1, t as usize] {
      for victim_first in [true, false] {
        let mut coll: Vec<Share> = att[..n_att].iter().map(|r| r.msg.share.clone()).collect();
        if victim_first {
          coll.insert(0, victim.msg.share.clone());
        } else {
          coll.push(victim.msg.share.clone());
        }
        if let Ok(c) = share_recover(&coll) {
          let mut k = vec![0u8; 16];
          derive_ske_key(&c.get_message(), &e, &mut k);
          if opens(&k) {
            rec.violation(
              "aux-revealed:related-measurement",
              format!("the victim's single report plus {} reports of a different measurement ({}) recover the victim's key", n_att, kind),
              rp("joint recovery"),
            );
            return;
          }
        }
      }
    }
  }
}

pub fn run(ctx: &Ctx) -> Rec {
  let mut rec = par_run(ctx, "xor", ctx.n(3000, 1_000_000), |rec, i, rng| xor_case(rec, ctx, i, rng));
  rec.merge(par_run(ctx, "window", ctx.n(400, 100_000), |rec, i, rng| window_case(rec, ctx, i, rng)));
  rec.merge(par_run(ctx, "related", ctx.n(300, 60_000), |rec, i, rng| related_case(rec, ctx, i, rng)));
  rec
}
