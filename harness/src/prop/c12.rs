//! C12 — PPOPRF output depends only on (server key, tag, input), never on the
//! blinding. Relational oracle over repeated rounds, freshness sets, global
//! injectivity of result points and outputs.

use crate::common::*;
use curve25519_dalek::scalar::Scalar;
use ppoprf::ppoprf::{Client, Point, Server};
use rand::Rng;
use rand_chacha::ChaCha20Rng;
use serde_json::json;
use std::collections::{HashMap, HashSet};
use std::sync::Mutex;

type Key3 = (usize, u8, Vec<u8>); // (server, tag, input)

struct Global {
  points: Mutex<HashMap<Vec<u8>, Key3>>,
  outputs: Mutex<HashMap<Vec<u8>, Key3>>,
  blinded: Mutex<HashSet<Vec<u8>>>,
  scalars: Mutex<HashSet<[u8; 32]>>,
  /// input -> its unblinded input point (must be one value per input, over all servers)
  input_points: Mutex<HashMap<Vec<u8>, Vec<u8>>>,
}

fn k3(k: &Key3) -> serde_json::Value {
  json!({"server": k.0, "tag": k.1, "input": hex_short(&k.2)})
}

fn inject(rec: &mut Rec, map: &Mutex<HashMap<Vec<u8>, Key3>>, what: &str, val: &[u8], key: &Key3) {
  let mut g = map.lock().unwrap();
  match g.get(val) {
    Some(prev) if prev != key => {
      let differs = if prev.0 != key.0 && prev.1 == key.1 && prev.2 == key.2 {
        "server"
      } else if prev.0 == key.0 && prev.1 != key.1 && prev.2 == key.2 {
        "tag"
      } else if prev.0 == key.0 && prev.1 == key.1 {
        "input"
      } else {
        "several"
      };
      rec.violation(
        &format!("collision:{}:differ-in-{}", what, differs),
        format!("the same {} {} was obtained for two different (server, tag, input) triples", what, hex(val)),
        json!({"a": k3(prev), "b": k3(key), "value": hex(val)}),
      );
    }
    Some(_) => {}
    None => {
      g.insert(val.to_vec(), key.clone());
    }
  }
}

fn inputs(rng: &mut ChaCha20Rng, thorough: bool) -> Vec<Vec<u8>> {
  let mut v = vec![vec![], vec![0u8], vec![0xffu8], rand_bytes(rng, 64), rand_bytes(rng, 1)];
  v.push(rand_bytes(rng, if thorough { 10240 } else { 2048 }));
  for _ in 0..3 {
    v.push(rand_bytes_in(rng, 2..40));
  }
  // near-identical inputs
  let base = rand_bytes(rng, 16);
  let mut b2 = base.clone();
  b2[15] ^= 1;
  let mut b3 = base.clone();
  b3.push(0);
  v.push(base);
  v.push(b2);
  v.push(b3);
  v
}

fn case(rec: &mut Rec, ctx: &Ctx, idx: u64, rng: &mut ChaCha20Rng, servers: &[(Server, Vec<u8>)], g: &Global) {
  let ins = inputs(rng, ctx.thorough());
  let reps = 3;
  for (si, (server, tags)) in servers.iter().enumerate() {
    // a few tags per case: extremes, adjacent, random
    let mut use_tags: Vec<u8> = vec![tags[0], *tags.last().unwrap()];
    for _ in 0..2 {
      use_tags.push(*pick(rng, tags));
    }
    if tags.len() > 2 {
      let j = rng.gen_range(0..tags.len() - 1);
      use_tags.push(tags[j]);
      use_tags.push(tags[j + 1]);
    }
    use_tags.sort();
    use_tags.dedup();
    for &tag in &use_tags {
      for input in &ins {
        rec.evals += 1;
        let key: Key3 = (si, tag, input.clone());
        rec.case(&(si, tag, input.clone(), idx));
        let mut finals: Vec<[u8; 32]> = Vec::new();
        let mut unblindeds: Vec<Point> = Vec::new();
        for rep in 0..reps {
          let verifiable = rep % 2 == 0;
          rec.ev("rounds");
          let (blinded, r) = Client::blind(input);
          // the unblinded input point P, observed relationally
          let p_in = Client::unblind(&blinded, &r);
          {
            let mut ip = g.input_points.lock().unwrap();
            match ip.get(input) {
              Some(prev) if prev != &p_in.as_bytes().to_vec() => rec.violation(
                "input-point-not-stable",
                "unblind(blind(x)) is not the same point on every call".into(),
                json!({"input": hex_short(input)}),
              ),
              Some(_) => {}
              None => {
                ip.insert(input.clone(), p_in.as_bytes().to_vec());
              }
            }
          }
          if blinded.as_bytes() == p_in.as_bytes() {
            rec.violation("blinded-equals-input-point", "a blinded request equals the unblinded input point".into(), json!({"input": hex_short(input)}));
          }
          if !g.blinded.lock().unwrap().insert(blinded.as_bytes().to_vec()) {
            rec.violation("blinded-request-repeats", "two blinded requests over the run are identical: requests are linkable".into(), json!({"input": hex_short(input), "blinded": hex(blinded.as_bytes())}));
          }
          let ev = match server.eval(&blinded, tag, verifiable) {
            Ok(e) => e,
            Err(e) => {
              rec.violation("eval-failed", format!("server refused a registered, unpunctured tag {}: {:?}", tag, e), k3(&key));
              return;
            }
          };
          if verifiable {
            rec.ev("verifications");
            if !Client::verify(&server.get_public_key(), &blinded, &ev, tag) {
              rec.violation("honest-proof-rejected", "an honest verifiable evaluation does not verify".into(), k3(&key));
            }
          }
          let unblinded = Client::unblind(&ev.output, &r);
          // the client's unblinded result equals the server's evaluation of P
          let direct = match server.eval(&p_in, tag, false) {
            Ok(e) => e.output,
            Err(e) => {
              rec.violation("eval-failed", format!("{:?}", e), k3(&key));
              return;
            }
          };
          rec.ev("direct_evaluations");
          if unblinded != direct {
            rec.violation(
              "unblinded-differs-from-direct-evaluation",
              format!("unblind(eval(blind(x))) != eval(P) for tag {} (repetition {})", tag, rep),
              json!({"key": k3(&key), "unblinded": hex(unblinded.as_bytes()), "direct": hex(direct.as_bytes())}),
            );
          }
          let mut out = [0u8; 32];
          Client::finalize(input, tag, &unblinded, &mut out);
          finals.push(out);
          unblindeds.push(unblinded);
          // blinding scalar freshness
          let rs: Scalar = r.into();
          // a client may park its blind as a scalar / bytes while the request is in
          // flight: the re-imported blind must unblind to the same result
          {
            use ppoprf::ppoprf::CurveScalar;
            let again = Client::unblind(&ev.output, &CurveScalar::from(rs));
            let again2 = Client::unblind(&ev.output, &CurveScalar::from(rs.to_bytes()));
            rec.ev("reimported_blind_unblinds");
            if again != unblindeds[unblindeds.len() - 1] || again2 != again {
              rec.violation(
                "reimported-blind-differs",
                "unblinding with the blinding scalar exported and re-imported (as a scalar or as bytes) gives another result than unblinding with the original object".into(),
                k3(&key),
              );
            }
          }
          let rb = rs.to_bytes();
          if rs == Scalar::ZERO || rs == Scalar::ONE {
            rec.violation("degenerate-blinding", "blinding scalar is 0 or 1".into(), json!({}));
          }
          if !g.scalars.lock().unwrap().insert(rb) {
            rec.violation("blinding-scalar-repeats", "two requests used the same blinding scalar".into(), json!({"scalar": hex(&rb)}));
          }
        }
        if finals.iter().any(|f| f != &finals[0]) || unblindeds.iter().any(|u| u != &unblindeds[0]) {
          rec.violation("output-depends-on-blinding", "repeated requests for one (server, tag, input) finalise to different outputs".into(), k3(&key));
        }
        inject(rec, &g.points, "unblinded-result-point", unblindeds[0].as_bytes(), &key);
        inject(rec, &g.outputs, "finalised-output", &finals[0], &key);
        if idx == 0 && si == 0 && tag == use_tags[0] && input.len() == 64 {
          rec.sample(json!({"server": si, "tag": tag, "input": hex_short(input), "output": hex(&finals[0]), "repetitions": reps}));
        }
      }
    }
  }
}

/// key sync with a state whose public key does not belong to its secret key (a
/// corrupted or forged blob): whatever the receiver does with it, afterwards it
/// must be ONE well-defined server - either its old self (same public key, same
/// outputs, proofs verify) or the state it was given (that public key, the
/// exporter's outputs)
fn inconsistent_import(rec: &mut Rec, _ctx: &Ctx, idx: u64, rng: &mut ChaCha20Rng) {
  use ppoprf::ppoprf::ServerKeyState;
  let tags = vec![1u8, 2, 9];
  let mut recv = Server::new(tags.clone()).expect("server");
  let exporter = Server::new(tags.clone()).expect("server");
  let third = Server::new(tags.clone()).expect("server");
  let mut bytes = bincode::serialize(&exporter.get_private_key()).expect("export");
  let other_pk = third.get_public_key().serialize_to_bincode().expect("pk");
  // layout of the blob: scalar[32] | public key (base[32] | n | entries) | ggm key
  let what = idx % 3;
  match what {
    0 => bytes[32..64].copy_from_slice(&other_pk[..32]),        // foreign base key
    1 => bytes[32 + 41..32 + 73].copy_from_slice(&other_pk[41..73]), // foreign key of the first tag
    _ => {}                                                      // consistent (control)
  }
  let st: ServerKeyState = match bincode::deserialize(&bytes) {
    Ok(s) => s,
    Err(_) => return,
  };
  let input = rand_bytes_in(rng, 1..20);
  let (bp, r) = Client::blind(&input);
  let p_in = Client::unblind(&bp, &r);
  let before: Vec<Option<Vec<u8>>> = tags.iter().map(|t| recv.eval(&p_in, *t, false).ok().map(|e| e.output.as_bytes().to_vec())).collect();
  let exp_out: Vec<Option<Vec<u8>>> = tags.iter().map(|t| exporter.eval(&p_in, *t, false).ok().map(|e| e.output.as_bytes().to_vec())).collect();
  let pk_before = recv.get_public_key().serialize_to_bincode().unwrap_or_default();
  let pk_state = bytes[32..32 + pk_before.len()].to_vec();
  rec.evals += 1;
  rec.ev("inconsistent_imports");
  rec.case(&("import", what, idx));
  let _ = guarded(|| recv.set_private_key(st));
  let pk_after = recv.get_public_key().serialize_to_bincode().unwrap_or_default();
  let after: Vec<Option<Vec<u8>>> = tags.iter().map(|t| recv.eval(&p_in, *t, false).ok().map(|e| e.output.as_bytes().to_vec())).collect();
  let ok = if pk_after == pk_before {
    after == before
  } else if pk_after == pk_state {
    after == exp_out
  } else {
    false
  };
  if !ok {
    rec.violation(
      "import-leaves-mixed-server",
      format!(
        "after importing a key state ({}) the server is neither its old self nor the imported state: public key {} but outputs {}",
        ["with a foreign base public key", "with a foreign per-tag public key", "consistent"][what as usize],
        if pk_after == pk_before { "unchanged" } else if pk_after == pk_state { "replaced by the state's" } else { "is a third value" },
        if after == before { "unchanged" } else if after == exp_out { "equal the exporter's" } else { "match neither" }
      ),
      json!({"variant": what}),
    );
  }
}

/// every input length around block / buffer boundaries: for one input of each
/// length, outputs must differ between two servers and between two tags, and
/// equal the server's direct evaluation
fn length_sweep(rec: &mut Rec, _ctx: &Ctx, len: u64, rng: &mut ChaCha20Rng, servers: &[(Server, Vec<u8>)], g: &Global) {
  let input = rand_bytes(rng, len as usize);
  for (si, (server, tags)) in servers.iter().enumerate().take(2) {
    for &tag in [tags[0], *tags.last().unwrap()].iter() {
      rec.evals += 1;
      rec.ev("rounds");
      rec.ev("length_sweep_rounds");
      rec.case(&("len", si, tag, len));
      let key: Key3 = (si, tag, input.clone());
      let (blinded, r) = Client::blind(&input);
      let p_in = Client::unblind(&blinded, &r);
      let ev = match server.eval(&blinded, tag, false) {
        Ok(e) => e,
        Err(_) => return,
      };
      let unblinded = Client::unblind(&ev.output, &r);
      if let Ok(d) = server.eval(&p_in, tag, false) {
        rec.ev("direct_evaluations");
        if d.output != unblinded {
          rec.violation("unblinded-differs-from-direct-evaluation", format!("input length {}", len), k3(&key));
        }
      }
      let mut out = [0u8; 32];
      Client::finalize(&input, tag, &unblinded, &mut out);
      inject(rec, &g.points, "unblinded-result-point", unblinded.as_bytes(), &key);
      inject(rec, &g.outputs, "finalised-output", &out, &key);
    }
  }
}

/// the output for (server key, tag, input) is the same for EVERY request: also for requests made
/// after other tags of that key have been punctured (in any order), and the honest proof still verifies
fn puncture_history(rec: &mut Rec, _ctx: &Ctx, idx: u64, rng: &mut ChaCha20Rng) {
  use rand::seq::SliceRandom;
  let tags: Vec<u8> = match idx % 3 {
    0 => (0..=255u8).collect(),
    1 => (0..32u8).map(|i| i.wrapping_mul(8).wrapping_add((idx % 8) as u8)).collect(),
    _ => {
      let mut t: Vec<u8> = (0..16).map(|_| rng.gen()).collect();
      t.sort();
      t.dedup();
      t
    }
  };
  let mut server = match Server::new(tags.clone()) {
    Ok(s) => s,
    Err(_) => return,
  };
  let pk = server.get_public_key();
  let input = rand_bytes_in(rng, 0..40);
  let full_round = |rec: &mut Rec, server: &Server, tag: u8| -> Option<[u8; 32]> {
    rec.ev("rounds");
    rec.ev("history_rounds");
    let (blinded, r) = Client::blind(&input);
    let ev = server.eval(&blinded, tag, true).ok()?;
    if !Client::verify(&pk, &blinded, &ev, tag) {
      rec.violation("honest-proof-rejected:after-puncture-history", format!("the honest evaluation for tag {} does not verify against the published key", tag), json!({"tag": tag, "tags": tags}));
      return None;
    }
    let unblinded = Client::unblind(&ev.output, &r);
    let mut out = [0u8; 32];
    Client::finalize(&input, tag, &unblinded, &mut out);
    Some(out)
  };
  rec.evals += 1;
  rec.case(&("puncture-history", tags.len(), idx % 3));
  let mut baseline: HashMap<u8, [u8; 32]> = HashMap::new();
  for &t in &tags {
    if let Some(o) = full_round(rec, &server, t) {
      baseline.insert(t, o);
    } else {
      return;
    }
  }
  // puncture order: random, ascending, descending, bit-7 partners first
  let mut order = tags.clone();
  match (idx / 3) % 4 {
    0 => order.shuffle(rng),
    1 => {}
    2 => order.reverse(),
    _ => order.sort_by_key(|t| (t & 0x7f, *t)),
  }
  let steps = order.len().min(if tags.len() > 64 { 24 } else { 12 });
  let mut punctured: Vec<u8> = Vec::new();
  for &a in order.iter().take(steps) {
    if server.puncture(a).is_err() {
      rec.violation("puncture-failed", format!("puncturing the registered tag {} failed", a), json!({"tags": tags, "punctured": punctured}));
      return;
    }
    punctured.push(a);
    // probes: neighbours of the punctured tag in the tree, and a few random live tags
    let mut probes: Vec<u8> = (0..8).map(|b| a ^ (1u8 << b)).chain((0..4).map(|_| tags[rng.gen_range(0..tags.len())])).collect();
    probes.retain(|t| tags.contains(t) && !punctured.contains(t));
    probes.sort();
    probes.dedup();
    for b in probes {
      match full_round(rec, &server, b) {
        Some(o) if Some(&o) == baseline.get(&b) => {}
        Some(_) => {
          rec.violation(
            "output-changed-after-puncture",
            format!("the finalised output for the unpunctured tag {} changed after tag {} was punctured (same server key, tag and input)", b, a),
            json!({"tags": tags, "punctured": punctured, "tag": b, "input": hex(&input)}),
          );
          return;
        }
        None => {
          if rec.violations.is_empty() {
            rec.violation("unpunctured-tag-refused", format!("the unpunctured tag {} is refused after tag {} was punctured", b, a), json!({"tags": tags, "punctured": punctured}));
          }
          return;
        }
      }
    }
  }
}

pub fn run(ctx: &Ctx) -> Rec {
  // independently keyed servers with different tag sets (incl. 0 and 255, adjacent tags, all 256)
  let mut r0 = case_rng(ctx, "servers", 0);
  let mut tagsets: Vec<Vec<u8>> = vec![vec![0, 1, 2, 127, 128, 254, 255], (0..=255u8).collect(), vec![r0.gen()]];
  tagsets[2].push(0);
  tagsets[2].push(255);
  tagsets[2].sort();
  tagsets[2].dedup();
  let servers: Vec<(Server, Vec<u8>)> = tagsets.into_iter().map(|t| (Server::new(t.clone()).expect("server"), t)).collect();
  // same tags, another key: outputs must differ between servers
  let mut servers = servers;
  servers.push((Server::new(vec![0, 1, 2, 127, 128, 254, 255]).expect("server"), vec![0, 1, 2, 127, 128, 254, 255]));
  let g = Global {
    points: Mutex::new(HashMap::new()),
    outputs: Mutex::new(HashMap::new()),
    blinded: Mutex::new(HashSet::new()),
    scalars: Mutex::new(HashSet::new()),
    input_points: Mutex::new(HashMap::new()),
  };
  let mut rec = par_run(ctx, "rounds", ctx.n(48, 2400), |rec, i, rng| case(rec, ctx, i, rng, &servers, &g));
  let max_len = if ctx.thorough() { 1100 } else { 340 };
  rec.merge(par_run(ctx, "length-sweep", max_len, |rec, i, rng| length_sweep(rec, ctx, i, rng, &servers, &g)));
  rec.note("length_sweep_max", json!(max_len));
  rec.merge(par_run(ctx, "inconsistent-import", ctx.n(60, 3000), |rec, i, rng| inconsistent_import(rec, ctx, i, rng)));
  rec.merge(par_run(ctx, "puncture-history", ctx.n(36, 1500), |rec, i, rng| puncture_history(rec, ctx, i, rng)));
  rec.note("distinct_blinded_requests", json!(g.blinded.lock().unwrap().len()));
  rec.note("distinct_result_points", json!(g.points.lock().unwrap().len()));
  rec.note("servers", json!(servers.len()));
  rec
}
