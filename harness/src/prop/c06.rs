//! C06 — textbook Shamir per an independent big-integer model.
//! Recording RNG + replay fixes which draw feeds which coefficient; BigUint
//! Horner / Lagrange / Newton give the expected values.

use crate::bigfield as bf;
use crate::common::*;
use crate::gen::{permutations, selection, SEL_PATTERNS};
use ff::{Field, PrimeField};
use num_bigint::BigUint;
use num_traits::{One, Zero};
use rand::{Rng, RngCore};
use rand_chacha::ChaCha20Rng;
use serde_json::{json, Value};
use star_sharks::{Fp, Share, Sharks};
use std::collections::{BTreeMap, HashMap, HashSet};

/// ChaCha20 wrapped to log every 64-bit word it hands out; chosen word
/// positions can be overridden (adversarial streams)
pub struct RecRng {
  pub inner: ChaCha20Rng,
  pub log: Vec<u64>,
  pub splice: HashMap<usize, u64>,
}
impl RecRng {
  pub fn new(inner: ChaCha20Rng) -> Self {
    RecRng {
      inner,
      log: Vec::new(),
      splice: HashMap::new(),
    }
  }
}
impl RngCore for RecRng {
  fn next_u32(&mut self) -> u32 {
    self.next_u64() as u32
  }
  fn next_u64(&mut self) -> u64 {
    let pos = self.log.len();
    let mut w = self.inner.next_u64();
    if let Some(s) = self.splice.get(&pos) {
      w = *s;
    }
    self.log.push(w);
    w
  }
  fn fill_bytes(&mut self, dest: &mut [u8]) {
    for c in dest.chunks_mut(8) {
      let w = self.next_u64().to_le_bytes();
      c.copy_from_slice(&w[..c.len()]);
    }
  }
  fn try_fill_bytes(&mut self, dest: &mut [u8]) -> Result<(), rand::Error> {
    self.fill_bytes(dest);
    Ok(())
  }
}

/// splice `len` consecutive candidates, starting at candidate `first`, that the field's
/// rejection sampler must refuse (every candidate consumes three 64-bit words)
pub fn rejection_run(r: &mut RecRng, first: usize, len: usize) {
  for j in 0..len {
    let base = 3 * (first + j);
    r.splice.insert(base, u64::MAX - j as u64);
    r.splice.insert(base + 1, u64::MAX);
    r.splice.insert(base + 2, u64::MAX);
  }
}

pub struct ReplayRng {
  words: Vec<u64>,
  pos: usize,
  pub exhausted: bool,
}
impl ReplayRng {
  pub fn new(words: Vec<u64>) -> Self {
    ReplayRng {
      words,
      pos: 0,
      exhausted: false,
    }
  }
  pub fn remaining(&self) -> usize {
    self.words.len().saturating_sub(self.pos)
  }
}
impl RngCore for ReplayRng {
  fn next_u32(&mut self) -> u32 {
    self.next_u64() as u32
  }
  fn next_u64(&mut self) -> u64 {
    if self.pos < self.words.len() {
      self.pos += 1;
      self.words[self.pos - 1]
    } else {
      self.exhausted = true;
      // any valid element ends the rejection loop; flagged as exhausted
      0
    }
  }
  fn fill_bytes(&mut self, dest: &mut [u8]) {
    for c in dest.chunks_mut(8) {
      let w = self.next_u64().to_le_bytes();
      c.copy_from_slice(&w[..c.len()]);
    }
  }
  fn try_fill_bytes(&mut self, dest: &mut [u8]) -> Result<(), rand::Error> {
    self.fill_bytes(dest);
    Ok(())
  }
}

fn of_fp(f: &Fp) -> BigUint {
  bf::from_le(f.to_repr().as_ref())
}

/// replay a recorded stream through the field's own sampler: the sequence of
/// elements the stream denotes, independent of how `ff` samples
fn replay_draws(words: &[u64]) -> Vec<BigUint> {
  let mut r = ReplayRng::new(words.to_vec());
  let mut out = Vec::new();
  while r.remaining() > 0 {
    let f = Fp::random(&mut r);
    if r.exhausted {
      break;
    }
    out.push(of_fp(&f));
  }
  out
}

/// Does the dealer's sampler consume the random source the way `Fp::random` does (three
/// 64-bit words per candidate, rejection of candidates >= p)? Established once per run on
/// plain streams. If not (the sampler was re-written in a way the replay model does not
/// describe) the replay comparison is switched off and only model-independent facts about
/// the coefficients are asserted - a different sampler is not a violation of the statement.
static REPLAY_MODEL_APPLIES: std::sync::atomic::AtomicBool = std::sync::atomic::AtomicBool::new(true);
static COEFFS_SEEN: std::sync::Mutex<Option<HashSet<Vec<u8>>>> = std::sync::Mutex::new(None);

fn calibrate(ctx: &Ctx) -> bool {
  for trial in 0..6u64 {
    let t = 3u32 + (trial % 3) as u32;
    let k = 1 + (trial % 2) as usize;
    let mut secret = Vec::new();
    for j in 0..k {
      secret.extend_from_slice(&bf::to_le24(&BigUint::from(1000u32 + trial as u32 * 10 + j as u32)));
    }
    let mut r = RecRng::new(case_rng(ctx, "calibration-stream", trial));
    let ev = match Sharks(t).dealer_rng(&secret, &mut r) {
      Ok(e) => e,
      Err(_) => return false,
    };
    let shares: Vec<Share> = ev.take(t as usize).collect();
    let draws = replay_draws(&r.log);
    if draws.len() < k * (t as usize - 1) {
      return false;
    }
    for e in 0..k {
      let mut coeffs: Vec<BigUint> = draws[e * (t as usize - 1)..(e + 1) * (t as usize - 1)].to_vec();
      coeffs.push(BigUint::from(1000u32 + trial as u32 * 10 + e as u32));
      for s in &shares {
        if s.y.len() != k || bf::horner_high_first(&coeffs, &of_fp(&s.x)) != of_fp(&s.y[e]) {
          return false;
        }
      }
    }
  }
  true
}

fn elem_choices(rng: &mut ChaCha20Rng) -> BigUint {
  let p = bf::p();
  let one = BigUint::one();
  match rng.gen_range(0..10) {
    0 => BigUint::zero(),
    1 => one,
    2 => (BigUint::one() << 64) - BigUint::one(),
    3 => BigUint::one() << 64,
    4 => (BigUint::one() << 128) - BigUint::one(),
    5 => BigUint::one() << 128,
    6 => &p - BigUint::one(),
    _ => {
      let mut b = [0u8; 17];
      rng.fill(&mut b[..]);
      b[16] &= 1;
      bf::from_le(&b) % &p
    }
  }
}

fn share_json(s: &Share) -> Value {
  json!({"x": of_fp(&s.x).to_string(), "y": s.y.iter().map(|y| of_fp(y).to_string()).collect::<Vec<_>>()})
}

fn dealing(rec: &mut Rec, ctx: &Ctx, idx: u64, rng: &mut ChaCha20Rng) {
  let thorough = ctx.thorough();
  let t: u32 = match idx % 100 {
    0 => *pick(rng, &[255u32, 500, 600]),
    1 | 2 => *pick(rng, &[40u32, 64, 100]),
    _ => {
      if rng.gen_bool(0.7) {
        rng.gen_range(1..=8)
      } else {
        rng.gen_range(1..=(if thorough { 40 } else { 24 }))
      }
    }
  };
  let k: usize = if t > 100 { rng.gen_range(1..=2) } else { *pick(rng, &[0usize, 1, 1, 2, 3, 4, 8, 16]) };
  let tail: usize = *pick(rng, &[0usize, 0, 0, 1, 23]); // ignored partial chunk
  let elems: Vec<BigUint> = (0..k).map(|_| elem_choices(rng)).collect();
  let mut secret: Vec<u8> = Vec::new();
  for e in &elems {
    secret.extend_from_slice(&bf::to_le24(e));
  }
  secret.extend(rand_bytes(rng, tail));
  let want_secret: Vec<u8> = secret[..k * 24].to_vec();

  // adversarial splices: zero / all-ones words at chosen coefficient draws
  let mut dealer_rng = RecRng::new(case_rng(ctx, "dealer-stream", idx));
  let n_coef_words = 3 * k * (t as usize).saturating_sub(1);
  let adversarial = idx % 5 == 0 && n_coef_words > 0;
  if adversarial {
    for _ in 0..rng.gen_range(1..=6) {
      let pos = rng.gen_range(0..n_coef_words + 3);
      let w = *pick(rng, &[0u64, u64::MAX, 1, 1 << 63]);
      dealer_rng.splice.insert(pos, w);
      if rng.gen_bool(0.5) {
        // a whole zero element
        let base = pos - pos % 3;
        for j in 0..3 {
          dealer_rng.splice.insert(base + j, 0);
        }
      }
    }
  }
  // a run of out-of-range candidates (top limb odd, low limbs >= 12451: rejected by the sampler)
  // in front of some coefficient: 1 .. 100 rejections in a row
  if idx % 5 == 2 && n_coef_words > 0 {
    rejection_run(&mut dealer_rng, rng.gen_range(0..(n_coef_words / 3).min(6)), *pick(rng, &[1usize, 5, 20, 21, 22, 40, 64, 100]));
    rec.ev("rejection_run_streams");
  }
  rec.evals += 1;
  rec.ev("deal");
  let sharks = Sharks(t);
  let evaluator = match sharks.dealer_rng(&secret, &mut dealer_rng) {
    Ok(e) => e,
    Err(e) => {
      rec.violation(
        "deal-refused",
        format!("dealer refused an in-range secret: {}", e),
        json!({"t":t,"secret":hex(&secret)}),
      );
      return;
    }
  };
  let draws = replay_draws(&dealer_rng.log);
  let need = k * (t as usize - 1);
  rec.case(&("deal", t.min(50), k, adversarial, tail > 0));
  rec.case(&("dealing", idx));

  // shares: iterator (first) and random points (second recording RNG)
  let n_iter = (t as usize) + rng.gen_range(0..=3).min(t as usize);
  let n_gen = if t > 100 { 2 } else { rng.gen_range(1..=(t as usize).min(6) + 1) };
  let mut evaluator = evaluator;
  let mut shares: Vec<Share> = Vec::new();
  for _ in 0..n_iter {
    shares.push(evaluator.next().unwrap());
  }
  // the dealer is an Iterator: shares obtained through nth / skip / step_by are
  // shares like any other (x != 0, on the polynomials, distinct from those dealt so far)
  if idx % 3 == 1 {
    let n0 = shares.len();
    match idx % 9 {
      1 => {
        if let Some(s) = evaluator.nth(rng.gen_range(0..3)) {
          shares.push(s);
        }
      }
      4 => {
        let k = rng.gen_range(1..4);
        let mut it = evaluator.by_ref().skip(k);
        if let Some(s) = it.next() {
          shares.push(s);
        }
      }
      _ => {
        let st = rng.gen_range(1..4);
        let v: Vec<Share> = evaluator.by_ref().step_by(st).take(2).collect();
        shares.extend(v);
      }
    }
    rec.evn("share_via_iterator_adaptor", (shares.len() - n0) as u64);
  }
  // a fresh dealer's very first share through nth(0)
  if idx % 11 == 2 {
    let mut r2 = RecRng::new(case_rng(ctx, "dealer-stream", idx));
    if let Ok(mut ev2) = sharks.dealer_rng(&secret, &mut r2) {
      if let Some(s) = ev2.nth(0) {
        rec.ev("share_via_iterator_adaptor");
        if bool::from(s.x.is_zero()) {
          rec.violation("x-zero:iter", "dealer.nth(0) on a fresh dealer dealt the share at x = 0 (the secret itself)".into(), json!({"t": t, "share": share_json(&s)}));
        }
      }
    }
  }
  let mut point_rng = RecRng::new(case_rng(ctx, "point-stream", idx));
  let zero_point = idx % 7 == 3;
  if zero_point {
    // the point draw of one gen() call sees a run of all-zero elements
    // (1, 2, 127, 128, 129, 200 or 300 rejected draws before a usable one)
    let which = rng.gen_range(0..n_gen);
    let run = *pick(rng, &[1usize, 1, 2, 127, 128, 129, 200, 300]);
    for j in 0..3 * run {
      point_rng.splice.insert(3 * which + j, 0);
    }
    rec.ev("zero_point_stream");
    if run > 100 {
      rec.ev("zero_point_stream_long_run");
    }
  }
  let mut gen_shares = Vec::new();
  for _ in 0..n_gen {
    gen_shares.push(evaluator.gen(&mut point_rng));
  }
  rec.evn("share_iter", n_iter as u64);
  rec.evn("share_gen", n_gen as u64);

  let replay = |extra: Value| -> Value {
    json!({"dealing_index": idx, "t": t, "k": k, "secret": hex(&secret), "adversarial_splices": adversarial,
           "dealer_words": dealer_rng.log.iter().take(64).map(|w| format!("{:016x}", w)).collect::<Vec<_>>(),
           "extra": extra})
  };

  // --- x != 0, distinct
  let mut seen_x: HashSet<Vec<u8>> = HashSet::new();
  for (i, s) in shares.iter().chain(gen_shares.iter()).enumerate() {
    let from_gen = i >= shares.len();
    if bool::from(s.x.is_zero()) {
      rec.violation(
        if from_gen { "x-zero:gen" } else { "x-zero:iter" },
        format!(
          "share {} ({}) was dealt at x = 0: its y-coordinates are the secret itself",
          i,
          if from_gen { "Evaluator::gen with a zero word stream at the point draw" } else { "iterator" }
        ),
        replay(json!({"share": share_json(s), "point_words": point_rng.log.iter().map(|w| format!("{:016x}", w)).collect::<Vec<_>>()})),
      );
    }
    if !seen_x.insert(s.x.to_repr().as_ref().to_vec()) && !from_gen {
      rec.violation("x-repeat:iter", "iterator dealt two shares at the same x".into(), replay(json!({})));
    }
    if s.y.len() != k {
      rec.violation(
        "y-count",
        format!("share has {} y-coordinates for a secret of {} elements", s.y.len(), k),
        replay(json!({"share": share_json(s)})),
      );
      return;
    }
  }

  // --- polynomial check: expected coefficients in dealing order (highest first, element-major)
  let all: Vec<&Share> = shares.iter().chain(gen_shares.iter()).collect();
  let model_on = REPLAY_MODEL_APPLIES.load(std::sync::atomic::Ordering::Relaxed);
  let mut in_order_ok = !model_on || draws.len() >= need;
  if in_order_ok && model_on {
    'outer: for e in 0..k {
      let mut coeffs: Vec<BigUint> = draws[e * (t as usize - 1)..(e + 1) * (t as usize - 1)].to_vec();
      coeffs.push(elems[e].clone());
      for s in &all {
        rec.ev("horner_check");
        if bf::horner_high_first(&coeffs, &of_fp(&s.x)) != of_fp(&s.y[e]) {
          in_order_ok = false;
          break 'outer;
        }
      }
    }
  }
  if !in_order_ok || !model_on {
    // order-insensitive fallback: interpolate coefficients from t shares and
    // compare as a multiset with the replayed draws
    rec.ev("fallback_interpolation");
    let mut used: BTreeMap<Vec<u8>, i64> = BTreeMap::new();
    for d in &draws {
      *used.entry(d.to_bytes_le()).or_insert(0) += 1;
    }
    for e in 0..k {
      let distinct: Vec<&Share> = {
        let mut seen = HashSet::new();
        all.iter().filter(|s| seen.insert(s.x.to_repr().as_ref().to_vec())).cloned().collect()
      };
      if distinct.len() < t as usize {
        rec.ev("fallback_not_enough_points");
        return;
      }
      let pts: Vec<(BigUint, BigUint)> = distinct[..t as usize].iter().map(|s| (of_fp(&s.x), of_fp(&s.y[e]))).collect();
      let coeffs = match bf::interpolate_coeffs(&pts) {
        Some(c) => c,
        None => return,
      };
      // remaining shares on the same polynomial
      for s in &distinct[t as usize..] {
        if bf::eval_low_first(&coeffs, &of_fp(&s.x)) != of_fp(&s.y[e]) {
          rec.violation(
            "not-one-polynomial",
            format!("shares of element {} do not lie on one polynomial of degree t-1 = {}", e, t - 1),
            replay(json!({"shares": all.iter().take(8).map(|s| share_json(s)).collect::<Vec<_>>() })),
          );
          return;
        }
      }
      if coeffs[0] != elems[e] {
        rec.violation(
          "constant-term",
          format!("constant term of polynomial {} is {} but the secret element is {}", e, coeffs[0], elems[e]),
          replay(json!({})),
        );
        return;
      }
      if !model_on {
        // model-independent: on plain streams the coefficients are non-zero, and no value
        // occurs twice - not inside this dealing, not in any other dealing of the run
        if !adversarial && idx % 5 != 2 {
          let mut g = COEFFS_SEEN.lock().unwrap();
          let set = g.get_or_insert_with(HashSet::new);
          for c in &coeffs[1..] {
            rec.ev("coefficient_generic_check");
            if c.is_zero() || !set.insert(c.to_bytes_le()) {
              drop(g);
              rec.violation(
                "coefficient-not-a-separate-draw",
                format!("coefficient {} of polynomial {} (t={}, k={}) is zero or was seen before in this run", c, e, t, k),
                replay(json!({"shares": all.iter().take(8).map(|s| share_json(s)).collect::<Vec<_>>() })),
              );
              return;
            }
          }
        }
        continue;
      }
      for c in &coeffs[1..] {
        let ent = used.entry(c.to_bytes_le()).or_insert(0);
        *ent -= 1;
        if *ent < 0 {
          rec.violation(
            "coefficient-not-a-separate-draw",
            format!(
              "coefficient {} of polynomial {} (t={}, k={}) is not a separate draw of the supplied random stream",
              c, e, t, k
            ),
            replay(json!({"shares": all.iter().take(8).map(|s| share_json(s)).collect::<Vec<_>>() })),
          );
          return;
        }
      }
    }
  }

  // --- recovery
  let n_total = shares.len();
  let t_us = t as usize;
  let mut check_recover = |rec: &mut Rec, sel: &[usize], pat: &str| {
    let picked: Vec<Share> = sel.iter().map(|&i| shares[i].clone()).collect();
    let distinct: HashSet<usize> = sel.iter().cloned().collect();
    rec.ev("recover");
    let got = sharks.recover(&picked);
    if distinct.len() >= t_us {
      match got {
        Ok(bytes) if bytes == want_secret => {
          // and agree with BigUint Lagrange over the first t distinct
          let mut seen = HashSet::new();
          let firsts: Vec<usize> = sel.iter().cloned().filter(|i| seen.insert(*i)).take(t_us).collect();
          if k > 0 && t_us <= 64 {
            let pts: Vec<(BigUint, BigUint)> = firsts.iter().map(|&i| (of_fp(&shares[i].x), of_fp(&shares[i].y[0]))).collect();
            rec.ev("lagrange_check");
            if bf::lagrange_at_zero(&pts) != Some(elems[0].clone()) {
              rec.violation("model-self-check", "BigUint Lagrange disagrees with the secret".into(), replay(json!({})));
            }
          }
        }
        Ok(bytes) => rec.violation(
          &format!("recover-wrong:{}", pat),
          format!("recover returned {} instead of the secret {} (pattern {}, t={}, {} shares)", hex_short(&bytes), hex_short(&want_secret), pat, t, sel.len()),
          replay(json!({"selection": sel})),
        ),
        Err(e) => rec.violation(
          &format!("recover-failed:{}", pat),
          format!("recover failed ({}) with {} distinct shares >= t={} (pattern {})", e, distinct.len(), t, pat),
          replay(json!({"selection": sel})),
        ),
      }
    } else if got.is_ok() {
      rec.violation(
        "recover-below-threshold",
        format!("recover succeeded with {} distinct shares < t={}", distinct.len(), t),
        replay(json!({"selection": sel})),
      );
    }
  };
  let pats: &[crate::gen::SelPattern] = if t > 100 { &SEL_PATTERNS[..2] } else { &SEL_PATTERNS[..] };
  for pat in pats {
    let sel = selection(rng, n_total, t_us, *pat);
    check_recover(rec, &sel, &format!("{:?}", pat));
    rec.case(&("rec", t.min(50), k.min(4), *pat));
  }
  if n_total <= 5 {
    for mask in 1u32..(1 << n_total) {
      let items: Vec<usize> = (0..n_total).filter(|i| mask & (1 << i) != 0).collect();
      for perm in permutations(&items) {
        check_recover(rec, &perm, "exhaustive");
      }
    }
    rec.ev("exhaustive_scenarios");
  }
  // fewer than t distinct (padded with repeats) must be refused
  if t_us >= 2 {
    let mut sel: Vec<usize> = (0..t_us - 1).collect();
    for _ in 0..rng.gen_range(1..=3) {
      let d = sel[rng.gen_range(0..sel.len())];
      sel.insert(rng.gen_range(0..=sel.len()), d);
    }
    check_recover(rec, &sel, "below-t-padded");
  }
  // mixed gen + iterator shares recover too (mutually combinable)
  if !gen_shares.is_empty() && !zero_point {
    let mut mix: Vec<Share> = gen_shares.clone();
    mix.extend(shares.iter().cloned());
    let distinct: HashSet<Vec<u8>> = mix.iter().map(|s| s.x.to_repr().as_ref().to_vec()).collect();
    rec.ev("recover_mixed");
    if distinct.len() >= t_us {
      match sharks.recover(&mix) {
        Ok(b) if b == want_secret => {}
        other => rec.violation(
          "recover-mixed",
          format!("random-point and iterator shares do not combine: {:?}", other.map(|b| hex_short(&b))),
          replay(json!({})),
        ),
      }
    }
  }
  // unequal y counts must be refused
  if k >= 1 && n_total >= 2 {
    let mut bad: Vec<Share> = shares.iter().take(t_us.max(2)).cloned().collect();
    let pos = rng.gen_range(1..bad.len());
    if rng.gen_bool(0.5) {
      bad[pos].y.pop();
    } else {
      let y0 = bad[pos].y[0];
      bad[pos].y.push(y0);
    }
    rec.ev("recover_unequal_len");
    let r = quiet(rec, || sharks.recover(&bad).map(|v| v.to_vec()).map_err(|e| e.to_string()));
    if let Some(Ok(_)) = r {
      rec.violation(
        "unequal-length-accepted",
        "recover accepted shares with unequal numbers of y-coordinates".into(),
        replay(json!({"position": pos})),
      );
    }
  }
  if idx < 2 {
    rec.sample(json!({"t": t, "secret_elements": elems.iter().map(|e| e.to_string()).collect::<Vec<_>>(), "ignored_tail_bytes": tail,
      "first_share": share_json(&shares[0]), "dealer_words_consumed": dealer_rng.log.len(), "draws_replayed": draws.len()}));
  }
}

/// the public get_evaluator with polynomials of DIFFERENT degrees, in every order
fn mixed_degree_evaluator(rec: &mut Rec, _ctx: &Ctx, idx: u64, rng: &mut ChaCha20Rng) {
  use star_sharks::get_evaluator;
  let k = rng.gen_range(2..5usize);
  let polys_big: Vec<Vec<BigUint>> = (0..k).map(|_| (0..rng.gen_range(1..8usize)).map(|_| elem_choices(rng)).collect()).collect();
  let to_fp = |v: &BigUint| -> Fp { Option::<Fp>::from(Fp::from_repr(star_sharks::FpRepr(bf::to_le24(v)))).unwrap() };
  let polys: Vec<Vec<Fp>> = polys_big.iter().map(|p| p.iter().map(to_fp).collect()).collect();
  rec.evals += 1;
  rec.ev("mixed_degree_evaluators");
  rec.case(&("mixed-degree", polys_big.iter().map(|p| p.len()).collect::<Vec<_>>(), idx));
  let mut ev = get_evaluator(polys);
  let mut shares: Vec<Share> = (0..3).map(|_| ev.next().unwrap()).collect();
  shares.push(ev.gen(rng));
  for s in &shares {
    for (i, p) in polys_big.iter().enumerate() {
      rec.ev("horner_check");
      if bf::horner_high_first(p, &of_fp(&s.x)) != of_fp(&s.y[i]) {
        rec.violation(
          "evaluation-wrong:mixed-degrees",
          format!("polynomial {} of {} (lengths {:?}) evaluated at x={} disagrees with big-integer Horner evaluation", i, polys_big.len(), polys_big.iter().map(|p| p.len()).collect::<Vec<_>>(), of_fp(&s.x)),
          json!({"polynomials_high_first": polys_big.iter().map(|p| p.iter().map(|c| c.to_string()).collect::<Vec<_>>()).collect::<Vec<_>>(), "share": share_json(s)}),
        );
        return;
      }
    }
  }
}

/// every threshold once: deal one element, take exactly t iterator shares, recover
fn threshold_sweep(rec: &mut Rec, ctx: &Ctx, t: u64, rng: &mut ChaCha20Rng) {
  let t = t as u32 + 1;
  let e = elem_choices(rng);
  let secret = bf::to_le24(&e).to_vec();
  let mut r = RecRng::new(case_rng(ctx, "sweep-stream", t as u64));
  let sh = Sharks(t);
  rec.evals += 1;
  rec.ev("threshold_sweep");
  rec.case(&("threshold", t));
  if let Ok(ev) = sh.dealer_rng(&secret, &mut r) {
    let shares: Vec<Share> = ev.take(t as usize).collect();
    rec.ev("recover");
    match sh.recover(&shares) {
      Ok(b) if b == secret => {}
      other => rec.violation(
        "recover-wrong:threshold-sweep",
        format!("threshold {}: exactly t iterator shares recovered {:?}", t, other.map(|b| hex_short(&b))),
        json!({"t": t, "secret": hex(&secret)}),
      ),
    }
  }
}

fn refused_secrets(rec: &mut Rec, _ctx: &Ctx, idx: u64, rng: &mut ChaCha20Rng) {
  let p = bf::p();
  let bad_vals: Vec<BigUint> = vec![
    p.clone(),
    &p + BigUint::one(),
    BigUint::one() << 129,
    (BigUint::one() << 192) - BigUint::one(),
    &p + (BigUint::one() << 64),
    BigUint::one() << 191,
  ];
  let k = rng.gen_range(1..=6);
  let pos = rng.gen_range(0..k);
  let bad = pick(rng, &bad_vals).clone();
  let mut secret = Vec::new();
  for i in 0..k {
    let e = if i == pos { bad.clone() } else { elem_choices(rng) };
    secret.extend_from_slice(&bf::to_le24(&e));
  }
  let t = rng.gen_range(1..=5);
  rec.evals += 1;
  rec.ev("deal_out_of_range");
  rec.case(&("refuse", k, pos, bad.to_bytes_le()));
  let mut r = RecRng::new(case_rng(_ctx, "refuse-stream", idx));
  let sh = Sharks(t);
  let res = sh.dealer_rng(&secret, &mut r);
  if let Ok(mut ev) = res {
    let s = ev.next().unwrap();
    rec.violation(
      "out-of-range-accepted",
      format!("a secret whose element {} is {} >= p was accepted (and therefore altered)", pos, bad),
      json!({"secret": hex(&secret), "t": t, "first_share": share_json(&s)}),
    );
  }
}

/// the convenience dealer that draws from the thread RNG: the same secret dealt
/// repeatedly must give valid sharings whose non-constant coefficients are fresh
/// draws (a run-global set of all coefficients seen)
fn std_dealer(rec: &mut Rec, _ctx: &Ctx, idx: u64, rng: &mut ChaCha20Rng, seen: &std::sync::Mutex<HashSet<Vec<u8>>>) {
  let t: u32 = rng.gen_range(2..=6);
  let k = rng.gen_range(1..=3usize);
  let elems: Vec<BigUint> = (0..k).map(|_| elem_choices(rng)).collect();
  let mut secret = Vec::new();
  for e in &elems {
    secret.extend_from_slice(&bf::to_le24(e));
  }
  let sh = Sharks(t);
  rec.evals += 1;
  rec.case(&("std-dealer", t, k, idx % 4));
  for round in 0..2 {
    rec.ev("std_dealer");
    let shares: Vec<Share> = match sh.dealer(&secret) {
      Ok(ev) => ev.take(t as usize + 1).collect(),
      Err(e) => {
        rec.violation("dealer-refused", format!("Sharks::dealer refused an in-range secret: {}", e), json!({"secret": hex(&secret), "t": t}));
        return;
      }
    };
    let rp = |why: &str| json!({"why": why, "t": t, "round": round, "secret": hex(&secret), "shares": shares.iter().map(share_json).collect::<Vec<_>>()});
    if shares.iter().any(|s| bool::from(s.x.is_zero()) || s.y.len() != k) {
      rec.violation("x-zero:std-dealer", "a share of Sharks::dealer has x = 0 or the wrong number of values".into(), rp("x-zero"));
      return;
    }
    for j in 0..k {
      let pts: Vec<(BigUint, BigUint)> = shares[..t as usize].iter().map(|s| (of_fp(&s.x), of_fp(&s.y[j]))).collect();
      let co = match bf::interpolate_coeffs(&pts) {
        Some(c) => c,
        None => {
          rec.violation("x-repeat:std-dealer", "shares of one dealer repeat an evaluation point".into(), rp("x-repeat"));
          return;
        }
      };
      rec.ev("horner_check");
      let last = &shares[t as usize];
      if co[0] != elems[j] || bf::eval_low_first(&co, &of_fp(&last.x)) != of_fp(&last.y[j]) {
        rec.violation("evaluation-wrong:std-dealer", format!("shares of Sharks::dealer do not lie on one polynomial of degree t-1 with the secret element {} as constant term", j), rp("polynomial"));
        return;
      }
      let mut g = seen.lock().unwrap();
      for c in co[1..].iter() {
        rec.ev("std_dealer_coefficient");
        if !g.insert(c.to_bytes_le()) {
          drop(g);
          rec.violation(
            "coefficient-repeat:std-dealer",
            format!("a non-constant coefficient ({}) dealt by Sharks::dealer was seen before in this run: coefficients are not separate draws from the random source", c),
            rp("coefficient-repeat"),
          );
          return;
        }
      }
    }
    rec.ev("recover");
    match sh.recover(&shares[1..]) {
      Ok(b) if b == secret => {}
      other => {
        rec.violation("recover-wrong:std-dealer", format!("t shares of Sharks::dealer recovered {:?}", other.map(|b| hex_short(&b))), rp("recover"));
        return;
      }
    }
  }
}

/// one dealer asked for far more shares than 2^16: every share still has a fresh
/// non-zero point and lies on the polynomial fixed by the first t shares
fn long_iterator(rec: &mut Rec, ctx: &Ctx, idx: u64, rng: &mut ChaCha20Rng) {
  let t: u32 = rng.gen_range(2..=3);
  let k = rng.gen_range(1..=2usize);
  let elems: Vec<BigUint> = (0..k).map(|_| elem_choices(rng)).collect();
  let mut secret = Vec::new();
  for e in &elems {
    secret.extend_from_slice(&bf::to_le24(e));
  }
  let n: usize = [65_545usize, 70_000, 131_080, 65_537][(idx % 4) as usize];
  let mut r = RecRng::new(case_rng(ctx, "long-iterator-stream", idx));
  let sh = Sharks(t);
  rec.evals += 1;
  rec.ev("long_iterators");
  rec.case(&("long-iterator", t, k, n));
  let ev = match sh.dealer_rng(&secret, &mut r) {
    Ok(ev) => ev,
    Err(_) => return,
  };
  let shares: Vec<Share> = ev.take(n).collect();
  let rp = |why: &str, i: usize| json!({"why": why, "t": t, "secret": hex(&secret), "share_index": i, "share": shares.get(i).map(share_json)});
  if shares.len() != n {
    rec.violation("iterator-ended", format!("the dealer stopped after {} of {} requested shares", shares.len(), n), rp("ended", 0));
    return;
  }
  let mut cos: Vec<Vec<BigUint>> = Vec::new();
  for j in 0..k {
    let pts: Vec<(BigUint, BigUint)> = shares[..t as usize].iter().map(|s| (of_fp(&s.x), of_fp(&s.y[j]))).collect();
    match bf::interpolate_coeffs(&pts) {
      Some(c) => cos.push(c),
      None => return,
    }
  }
  let mut seen: HashSet<Vec<u8>> = HashSet::with_capacity(n);
  for (i, s) in shares.iter().enumerate() {
    rec.ev("horner_check");
    let x = of_fp(&s.x);
    if x.is_zero() {
      rec.violation("x-zero:long-iterator", format!("share #{} of one dealer was dealt at x = 0 (its values are the secret itself)", i + 1), rp("x-zero", i));
      return;
    }
    if !seen.insert(x.to_bytes_le()) {
      rec.violation("x-repeat:long-iterator", format!("share #{} of one dealer repeats the evaluation point of an earlier share", i + 1), rp("x-repeat", i));
      return;
    }
    for j in 0..k {
      if s.y.len() != k || bf::eval_low_first(&cos[j], &x) != of_fp(&s.y[j]) {
        rec.violation("evaluation-wrong:long-iterator", format!("share #{} does not lie on the polynomial of the first t shares", i + 1), rp("polynomial", i));
        return;
      }
    }
  }
  rec.ev("recover");
  match sh.recover(&shares[n - t as usize..]) {
    Ok(b) if b == secret => {}
    other => rec.violation("recover-wrong:long-iterator", format!("the last t of {} shares recovered {:?}", n, other.map(|b| hex_short(&b))), rp("recover", n - 1)),
  }
}

pub fn run(ctx: &Ctx) -> Rec {
  let n = ctx.n(3000, 150_000);
  let applies = calibrate(ctx);
  REPLAY_MODEL_APPLIES.store(applies, std::sync::atomic::Ordering::Relaxed);
  *COEFFS_SEEN.lock().unwrap() = None;
  let mut rec = par_run(ctx, "dealing", n, |rec, i, rng| dealing(rec, ctx, i, rng));
  rec.note("replay_model_applies", json!(applies));
  rec.evn("replay_model_calibrations", 1);
  let r2 = par_run(ctx, "refused", ctx.n(600, 20_000), |rec, i, rng| refused_secrets(rec, ctx, i, rng));
  rec.merge(r2);
  rec.merge(par_run(ctx, "mixed-degree", ctx.n(400, 20_000), |rec, i, rng| mixed_degree_evaluator(rec, ctx, i, rng)));
  // every threshold 1..=T once (O(t^2) inversions each): 320 quick, 1024 thorough
  let tmax: u64 = (((if ctx.thorough() { 1024 } else { 320 }) as f64) * ctx.scale.min(1.0)).ceil() as u64;
  rec.merge(par_run(ctx, "threshold-sweep", tmax, |rec, i, rng| threshold_sweep(rec, ctx, tmax - 1 - i, rng)));
  rec.note("threshold_sweep_max", json!(tmax));
  rec.merge(par_run(ctx, "long-iterator", ctx.n(4, 8), |rec, i, rng| long_iterator(rec, ctx, i, rng)));
  let seen = std::sync::Mutex::new(HashSet::new());
  rec.merge(par_run(ctx, "std-dealer", ctx.n(1500, 60_000), |rec, i, rng| std_dealer(rec, ctx, i, rng, &seen)));
  rec
}
