//! Seeded generators shared by the monitors (STAR scenarios, byte content
//! classes, selection patterns).

use crate::common::*;
use rand::seq::SliceRandom;
use rand::Rng;
use rand_chacha::ChaCha20Rng;
use sta_rs::{AssociatedData, Message, MessageGenerator, SingleMeasurement};

/// Strobe-128 rate: payloads whose framed length straddles it span two blocks
pub const RATE: usize = 166;

#[derive(Clone, Copy, Debug, PartialEq, Eq, Hash)]
pub enum Content {
  Uniform,
  Zero,
  Ones,
  Ascii,
  /// printable text with white space at one or both edges
  EdgedText,
}

pub fn content(rng: &mut ChaCha20Rng, len: usize, c: Content) -> Vec<u8> {
  match c {
    Content::Uniform => rand_bytes(rng, len),
    Content::Zero => vec![0u8; len],
    Content::Ones => vec![0xffu8; len],
    Content::Ascii => (0..len).map(|_| rng.gen_range(0x20u8..0x7f)).collect(),
    Content::EdgedText => {
      let mut v: Vec<u8> = (0..len).map(|_| rng.gen_range(0x21u8..0x7f)).collect();
      let ws = [b' ', b'\t', b'\n', b'\r'];
      if len > 0 {
        let k = rng.gen_range(0..3);
        if k != 1 {
          v[0] = ws[rng.gen_range(0..4)];
        }
        if k != 0 {
          v[len - 1] = ws[rng.gen_range(0..4)];
        }
      }
      v
    }
  }
}

pub fn content_class(rng: &mut ChaCha20Rng) -> Content {
  match rng.gen_range(0..10) {
    0 => Content::Zero,
    1 => Content::Ones,
    2 | 3 => Content::Ascii,
    4 => Content::EdgedText,
    _ => Content::Uniform,
  }
}

pub fn measurement_len(rng: &mut ChaCha20Rng, thorough: bool) -> usize {
  let mut lens: Vec<usize> = vec![0, 1, 2, 3, 15, 16, 17, 32, 64];
  lens.extend(158..=170);
  lens.extend([1024, 4096]);
  if thorough {
    lens.push(8192);
  }
  match rng.gen_range(0..10) {
    0..=6 => *pick(rng, &lens),
    7 | 8 => rng.gen_range(0..400),
    _ => rng.gen_range(0..(if thorough { 6000 } else { 1500 })),
  }
}

pub fn epoch(rng: &mut ChaCha20Rng) -> Vec<u8> {
  let len = match rng.gen_range(0..8) {
    0 => 0,
    1 => 1,
    2 => 2,
    3 => 8,
    4 => 64,
    _ => rng.gen_range(0..=64),
  };
  let c = content_class(rng);
  content(rng, len, c)
}

pub fn threshold(rng: &mut ChaCha20Rng, thorough: bool) -> u32 {
  let small = [1u32, 2, 3, 4, 5, 7, 8];
  let mid = [16u32, 17, 31, 32, 33];
  let big = [63u32, 64, 65];
  let huge = [100u32, 128, 255, 256, 257, 300];
  match rng.gen_range(0..100) {
    0..=64 => *pick(rng, &small),
    65..=89 => *pick(rng, &mid),
    90..=97 => *pick(rng, &big),
    _ => {
      if thorough && rng.gen_bool(0.3) {
        *pick(rng, &huge)
      } else {
        *pick(rng, &big)
      }
    }
  }
}

/// associated data: None / empty / 1 byte / rate-boundary lengths relative to
/// the framed measurement / multi-block
pub fn aux(rng: &mut ChaCha20Rng, mlen: usize, thorough: bool) -> Option<Vec<u8>> {
  let k = rng.gen_range(0..12);
  let len = match k {
    0 | 1 => return None,
    2 => 0,
    3 => 1,
    4 | 5 => {
      // make 4+mlen+4+len land on R-1, R, R+1, 2R-1, 2R, 2R+1
      let target = *pick(rng, &[RATE - 1, RATE, RATE + 1, 2 * RATE - 1, 2 * RATE, 2 * RATE + 1]);
      target.saturating_sub(8 + mlen)
    }
    6 => rng.gen_range(150..180),
    7 => rng.gen_range(300..700),
    8 => {
      if thorough {
        2048
      } else {
        1024
      }
    }
    _ => rng.gen_range(1..64),
  };
  let c = content_class(rng);
  Some(content(rng, len, c))
}

#[derive(Clone, Debug, PartialEq, Eq, Hash)]
pub enum RandSrc {
  Local,
  Ppoprf,
  Arbitrary,
  AllZero,
  AllOnes,
}

pub fn rand_src(rng: &mut ChaCha20Rng) -> RandSrc {
  match rng.gen_range(0..10) {
    0..=4 => RandSrc::Local,
    5 | 6 => RandSrc::Ppoprf,
    7 => RandSrc::Arbitrary,
    8 => RandSrc::AllZero,
    _ => RandSrc::AllOnes,
  }
}

/// One full PPOPRF round of one client against a live randomness server.
/// Returns None if the honest proof does not verify (reported by the caller).
pub fn ppoprf_round(
  server: &ppoprf::ppoprf::Server,
  input: &[u8],
  md: u8,
) -> Option<[u8; 32]> {
  use ppoprf::ppoprf::Client;
  let (blinded, r) = Client::blind(input);
  let ev = server.eval(&blinded, md, true).ok()?;
  if !Client::verify(&server.get_public_key(), &blinded, &ev, md) {
    return None;
  }
  let unblinded = Client::unblind(&ev.output, &r);
  let mut out = [0u8; 32];
  Client::finalize(input, md, &unblinded, &mut out);
  Some(out)
}

pub struct ClientReport {
  pub aux: Option<Vec<u8>>,
  pub msg: Message,
  pub bytes: Vec<u8>,
  pub rnd: [u8; 32],
}

pub struct Scenario {
  pub measurement: Vec<u8>,
  pub epoch: Vec<u8>,
  pub t: u32,
  pub src: RandSrc,
}

impl Scenario {
  pub fn gen(rng: &mut ChaCha20Rng, thorough: bool) -> Scenario {
    let ml = measurement_len(rng, thorough);
    let c = content_class(rng);
    Scenario {
      measurement: content(rng, ml, c),
      epoch: epoch(rng),
      t: threshold(rng, thorough),
      src: rand_src(rng),
    }
  }

  /// every client builds its own generator, obtains the shared randomness from
  /// the chosen source, and its report crosses to_bytes/from_bytes
  pub fn make_reports(
    &self,
    rng: &mut ChaCha20Rng,
    auxes: &[Option<Vec<u8>>],
  ) -> Result<Vec<ClientReport>, String> {
    let server = if self.src == RandSrc::Ppoprf {
      let md = rng.gen::<u8>();
      let mut mds = vec![md];
      for _ in 0..rng.gen_range(0..3) {
        mds.push(rng.gen());
      }
      Some((ppoprf::ppoprf::Server::new(mds).map_err(|e| e.to_string())?, md))
    } else {
      None
    };
    let arb: [u8; 32] = rng.gen();
    let mut out = Vec::with_capacity(auxes.len());
    for a in auxes {
      // text values enter through the string conversions now and then
      let via_str = rng.gen_bool(0.5);
      let mg = MessageGenerator::new(
        match std::str::from_utf8(&self.measurement) {
          Ok(s) if via_str => SingleMeasurement::from(s),
          _ => SingleMeasurement::new(&self.measurement),
        },
        self.t,
        &self.epoch,
      );
      let mut rnd = [0u8; 32];
      match self.src {
        RandSrc::Local => mg.sample_local_randomness(&mut rnd),
        RandSrc::Ppoprf => {
          let (srv, md) = server.as_ref().unwrap();
          rnd = ppoprf_round(srv, &self.measurement, *md)
            .ok_or("honest PPOPRF round failed to verify")?;
        }
        RandSrc::Arbitrary => rnd = arb,
        RandSrc::AllZero => rnd = [0u8; 32],
        RandSrc::AllOnes => rnd = [0xff; 32],
      }
      // a generator is a long-lived client object: now and then it has already been
      // used with ANOTHER randomness (e.g. a local report before a server-randomness one)
      if rng.gen_range(0..6) == 0 {
        let mut other = [0u8; 32];
        rng.fill(&mut other[..]);
        let _ = Message::generate(&mg, &other, None);
        let mut lr = [0u8; 32];
        mg.sample_local_randomness(&mut lr);
      }
      let msg = Message::generate(
        &mg,
        &rnd,
        a.as_ref().map(|b| match std::str::from_utf8(b) {
          Ok(s) if via_str => AssociatedData::from(s),
          _ if b.len() % 2 == 1 => AssociatedData::from(&b[..]),
          _ => AssociatedData::new(b),
        }),
      )
      .map_err(|e| format!("Message::generate failed: {}", e))?;
      let bytes = msg.to_bytes();
      out.push(ClientReport {
        aux: a.clone(),
        msg,
        bytes,
        rnd,
      });
    }
    Ok(out)
  }
}

#[derive(Clone, Copy, Debug, PartialEq, Eq, Hash)]
pub enum SelPattern {
  GenerationOrder,
  Permuted,
  ExactlyT,
  DupsAnywhere,
  DupsFront,
  Surplus,
  Reversed,
}

pub const SEL_PATTERNS: [SelPattern; 7] = [
  SelPattern::GenerationOrder,
  SelPattern::Permuted,
  SelPattern::ExactlyT,
  SelPattern::DupsAnywhere,
  SelPattern::DupsFront,
  SelPattern::Surplus,
  SelPattern::Reversed,
];

/// a selection of indices into 0..n that keeps at least t distinct indices
pub fn selection(
  rng: &mut ChaCha20Rng,
  n: usize,
  t: usize,
  pat: SelPattern,
) -> Vec<usize> {
  let mut all: Vec<usize> = (0..n).collect();
  match pat {
    SelPattern::GenerationOrder => all,
    SelPattern::Reversed => {
      all.reverse();
      all
    }
    SelPattern::Permuted => {
      all.shuffle(rng);
      all
    }
    SelPattern::ExactlyT => {
      all.shuffle(rng);
      all.truncate(t);
      all
    }
    SelPattern::Surplus => {
      all.shuffle(rng);
      let k = rng.gen_range(t..=n);
      all.truncate(k);
      all
    }
    SelPattern::DupsAnywhere => {
      all.shuffle(rng);
      all.truncate(t);
      let dups = rng.gen_range(1..=t.max(1) + 2);
      for _ in 0..dups {
        let d = all[rng.gen_range(0..all.len())];
        let pos = rng.gen_range(0..=all.len());
        all.insert(pos, d);
      }
      all
    }
    SelPattern::DupsFront => {
      all.shuffle(rng);
      all.truncate(t);
      // a run of repeats of one share at the very front, before its original
      let d = all[rng.gen_range(0..all.len())];
      let run = rng.gen_range(1..=t.max(1) + 1);
      let mut v = vec![d; run];
      v.extend(all);
      v
    }
  }
}

/// all permutations of `items` (Heap's algorithm); n! results
pub fn permutations(items: &[usize]) -> Vec<Vec<usize>> {
  let mut res = Vec::new();
  let mut a = items.to_vec();
  let n = a.len();
  let mut c = vec![0usize; n];
  res.push(a.clone());
  let mut i = 0;
  while i < n {
    if c[i] < i {
      if i % 2 == 0 {
        a.swap(0, i);
      } else {
        a.swap(c[i], i);
      }
      res.push(a.clone());
      c[i] += 1;
      i = 0;
    } else {
      c[i] = 0;
      i += 1;
    }
  }
  res
}
