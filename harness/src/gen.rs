//! Seeded generators shared by the monitors.
