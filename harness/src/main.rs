//! `mon <PROPERTY> [--tier quick|thorough] [--seed N] [--threads N]
//!      [--scale F] [--stage NAME] [--out FILE] [--set k=v]...`
//!
//! Runs the runtime monitor of one property against the real crates under
//! /repo and writes a JSON result (events observed, distinct cases, samples,
//! violations with replay artefacts). `check.py` turns that into the verdict.

use mon::common::*;
use mon::prop;
use std::collections::BTreeMap;
use std::time::Instant;

fn main() {
  let args: Vec<String> = std::env::args().collect();
  if args.len() < 2 {
    eprintln!("usage: mon <PROPERTY|replay> [options]");
    std::process::exit(64);
  }
  let mut ctx = Ctx {
    prop: args[1].clone(),
    tier: Tier::Quick,
    seed: 1,
    threads: std::thread::available_parallelism().map(|n| n.get()).unwrap_or(4),
    scale: 1.0,
    stage: "release".into(),
    extra: BTreeMap::new(),
  };
  let mut out: Option<String> = None;
  let mut i = 2;
  while i < args.len() {
    let a = args[i].as_str();
    let mut val = || {
      i += 1;
      args.get(i).cloned().unwrap_or_else(|| {
        eprintln!("missing value for {}", a);
        std::process::exit(64)
      })
    };
    match a {
      "--tier" => {
        ctx.tier = if val() == "thorough" { Tier::Thorough } else { Tier::Quick }
      }
      "--seed" => ctx.seed = val().parse().expect("seed"),
      "--threads" => ctx.threads = val().parse().expect("threads"),
      "--scale" => ctx.scale = val().parse().expect("scale"),
      "--stage" => ctx.stage = val(),
      "--out" => out = Some(val()),
      "--set" => {
        let kv = val();
        let (k, v) = kv.split_once('=').unwrap_or((&kv, "1"));
        ctx.extra.insert(k.to_string(), v.to_string());
      }
      _ => {
        eprintln!("unknown option {}", a);
        std::process::exit(64);
      }
    }
    i += 1;
  }
  // positive controls for the sanitizer stages: deliberately broken code that the
  // engine under which this binary runs must report (never reached by any monitor)
  if ctx.prop == "selftest-race" {
    static mut COUNTER: u64 = 0;
    let hs: Vec<_> = (0..2)
      .map(|_| {
        std::thread::spawn(|| {
          for _ in 0..10_000 {
            unsafe {
              let p = std::ptr::addr_of_mut!(COUNTER);
              std::ptr::write_volatile(p, std::ptr::read_volatile(p) + 1);
            }
          }
        })
      })
      .collect();
    for h in hs {
      let _ = h.join();
    }
    println!("selftest-race done {}", unsafe { std::ptr::read_volatile(std::ptr::addr_of!(COUNTER)) });
    return;
  }
  if ctx.prop == "selftest-heap" {
    let v: Vec<u8> = vec![1u8; 24];
    let x = unsafe { std::ptr::read_volatile(v.as_ptr().add(24 + 8)) };
    println!("selftest-heap read {}", x);
    return;
  }
  install_panic_hook();
  let t0 = Instant::now();
  let rec = match guarded(|| prop::dispatch(&ctx)) {
    Ok(r) => r,
    Err(c) => {
      let mut r = Rec::new();
      r.violation(
        &format!("panic:{}", strip_line(&c.loc)),
        format!("the monitor's main thread panicked at {}: {}", c.loc, c.msg),
        serde_json::json!({"location": c.loc, "message": c.msg}),
      );
      r
    }
  };
  let wall = t0.elapsed().as_secs_f64();
  let mut j = rec.to_json();
  j["property"] = ctx.prop.clone().into();
  j["tier"] = (if ctx.tier == Tier::Quick { "quick" } else { "thorough" }).into();
  j["seed"] = ctx.seed.into();
  j["stage"] = ctx.stage.clone().into();
  j["threads"] = ctx.threads.into();
  j["scale"] = ctx.scale.into();
  j["wall_s"] = wall.into();
  j["panics_caught_total"] =
    PANICS_SEEN.load(std::sync::atomic::Ordering::Relaxed).into();
  let s = serde_json::to_string(&j).unwrap();
  match out {
    Some(p) => std::fs::write(&p, s).expect("write result"),
    None => println!("{}", s),
  }
}
