//! Hostile-input corpus shared by C08 (differential decoding) and C09
//! (crash-freedom): structure-aware mutation of valid artefacts plus the
//! degenerate values named in the properties' quantifiers.

use crate::bigfield as bf;
use crate::common::*;
use crate::layout::{self, AdssShare, Report, SharkShare};
use num_bigint::BigUint;
use num_traits::One;
use rand::Rng;
use rand_chacha::ChaCha20Rng;
use std::ops::Range;

#[derive(Clone, Copy, Debug, PartialEq, Eq, Hash, PartialOrd, Ord)]
pub enum Target {
  SharksTryFrom,
  SharksRecover,
  AdssFromBytes,
  AdssRecover,
  StarShareFromBytes,
  MessageFromBytes,
  ShareRecover,
  LoadBytes,
  LoadU32,
  AccessStructure,
  PkLoad,
  ProofLoad,
  JsonPoint,
  JsonEvaluation,
  ServerEval,
  ClientVerify,
  GroupShares,
}

#[derive(Clone, Debug)]
pub struct Case {
  pub target: Target,
  pub desc: String,
  pub blobs: Vec<Vec<u8>>,
  pub num: u64,
}

impl Case {
  pub fn one(target: Target, desc: impl Into<String>, b: Vec<u8>) -> Case {
    Case {
      target,
      desc: desc.into(),
      blobs: vec![b],
      num: 0,
    }
  }
  pub fn to_json(&self) -> serde_json::Value {
    serde_json::json!({"target": format!("{:?}", self.target), "desc": self.desc, "num": self.num,
      "blobs_hex": self.blobs.iter().map(|b| if b.len() <= 4096 { hex(b) } else { hex_short(b) }).collect::<Vec<_>>()})
  }
}

pub const LEN_VALUES: [u32; 16] = [
  0, 1, 23, 24, 25, 47, 48, 49, 0x7fff_ffff, 0x8000_0000, 0xffff_fffb, 0xffff_fffc, 0xffff_fffd, 0xffff_fffe, 0xffff_ffff, 64,
];

fn p_plus(k: u32) -> [u8; 24] {
  bf::to_le24(&(bf::p() + BigUint::from(k)))
}

pub fn bad_elems(rng: &mut ChaCha20Rng, orig: &[u8]) -> Vec<[u8; 24]> {
  let mut v = vec![p_plus(0), p_plus(1), bf::to_le24(&(BigUint::one() << 129)), [0xff; 24]];
  // the same residue, second encoding
  let o = bf::from_le(orig);
  let second = o + bf::p();
  if second < (BigUint::one() << 192) {
    v.push(bf::to_le24(&second));
  }
  let mut hi = [0u8; 24];
  hi[..24].copy_from_slice(&{
    let mut t = [0u8; 24];
    t[..orig.len().min(24)].copy_from_slice(&orig[..orig.len().min(24)]);
    t
  });
  hi[rng.gen_range(17..24)] |= 1 << rng.gen_range(0..8);
  v.push(hi);
  v
}

/// generic mutations of a valid encoding whose 4-byte length fields and
/// 24-byte element fields are known
pub fn mutate(
  rng: &mut ChaCha20Rng,
  valid: &[u8],
  len_fields: &[(String, Range<usize>, u32)],
  elem_fields: &[(String, Range<usize>)],
  other: &[u8],
  thorough: bool,
) -> Vec<(String, Vec<u8>)> {
  let mut out: Vec<(String, Vec<u8>)> = Vec::new();
  out.push(("valid".into(), valid.to_vec()));
  // 1. every prefix (sampled when long, always around field boundaries)
  let n = valid.len();
  let mut cuts: Vec<usize> = if n <= 700 { (0..n).collect() } else { (0..300).map(|_| rng.gen_range(0..n)).collect() };
  for (_, r, _) in len_fields {
    for d in [0usize, 1, 3, 4, 5] {
      cuts.push((r.start + d).min(n));
    }
  }
  cuts.sort();
  cuts.dedup();
  for c in cuts {
    if c < n {
      out.push((format!("prefix:{}", c), valid[..c].to_vec()));
    }
  }
  // 2. every length field set to each boundary value
  for (name, r, cur) in len_fields {
    let mut vals: Vec<u32> = LEN_VALUES.to_vec();
    vals.extend([cur.wrapping_sub(1), *cur, cur.wrapping_add(1), cur.wrapping_add(24), cur.wrapping_sub(24)]);
    vals.sort();
    vals.dedup();
    for v in vals {
      let mut b = valid.to_vec();
      b[r.clone()].copy_from_slice(&v.to_le_bytes());
      out.push((format!("len:{}={}", name, v), b));
    }
  }
  // 3. byte / bit faults at every offset
  let offs: Vec<usize> = if n <= 900 { (0..n).collect() } else { (0..600).map(|_| rng.gen_range(0..n)).collect() };
  for o in offs {
    let faults: Vec<u8> = if thorough {
      vec![valid[o] ^ 1, valid[o] ^ 0x80, valid[o].wrapping_add(1), 0, 0xff]
    } else {
      let all = [valid[o] ^ 1, valid[o] ^ 0x80, valid[o].wrapping_add(1), 0, 0xff];
      vec![all[rng.gen_range(0..5)], all[rng.gen_range(0..5)]]
    };
    for f in faults {
      if f != valid[o] {
        let mut b = valid.to_vec();
        b[o] = f;
        out.push((format!("byte:{}={:02x}", o, f), b));
      }
    }
  }
  // 4. out-of-range field elements
  for (name, r) in elem_fields {
    for (k, e) in bad_elems(rng, &valid[r.clone()]).into_iter().enumerate() {
      let mut b = valid.to_vec();
      b[r.clone()].copy_from_slice(&e);
      out.push((format!("elem:{}:bad{}", name, k), b));
    }
  }
  // 5. trailing bytes
  for extra in [1usize, 4, 23, 24, 64] {
    let mut b = valid.to_vec();
    b.extend(rand_bytes(rng, extra));
    out.push((format!("trailing:{}", extra), b));
  }
  let mut b = valid.to_vec();
  b.extend_from_slice(other);
  out.push(("trailing:another-valid".into(), b));
  // 6. splices
  if !other.is_empty() && n > 0 {
    for _ in 0..10 {
      let i = rng.gen_range(0..=n);
      let j = rng.gen_range(0..=other.len());
      let mut b = valid[..i].to_vec();
      b.extend_from_slice(&other[j..]);
      out.push((format!("splice:{}+{}", i, j), b));
    }
  }
  out
}

/// strings for the base64 `output` field of a JSON evaluation: every decoded
/// length around 32, padded / unpadded / over-padded, illegal characters,
/// url-safe alphabet, single-character edits of a valid value
pub fn b64_output_strings(rng: &mut ChaCha20Rng) -> Vec<(String, String)> {
  use base64::{engine::Engine as _, prelude::BASE64_STANDARD};
  let mut v: Vec<(String, String)> = Vec::new();
  for n in 0..=40usize {
    let raw = rand_bytes(rng, n);
    let s = BASE64_STANDARD.encode(&raw);
    v.push((format!("b64:{}bytes", n), s.clone()));
    let unp = s.trim_end_matches('=').to_string();
    if unp != s {
      v.push((format!("b64:{}bytes-unpadded", n), unp.clone()));
      v.push((format!("b64:{}bytes-padA", n), format!("{}{}", unp, "A".repeat(s.len() - unp.len()))));
    }
  }
  let good = BASE64_STANDARD.encode(rand_bytes(rng, 32));
  for (i, ch) in [(43usize, 'A'), (43, '!'), (42, '='), (0, '='), (10, ' '), (20, '\n'), (43, '/'), (5, '-'), (6, '_')] {
    let mut c: Vec<char> = good.chars().collect();
    c[i] = ch;
    v.push((format!("b64:edit{}={:?}", i, ch), c.into_iter().collect()));
  }
  v.push(("b64:doubled".into(), format!("{}{}", good, good)));
  v.push(("b64:extra-pad".into(), format!("{}=", good)));
  v.push(("b64:42+==".into(), format!("{}==", &good[..42])));
  v.push(("b64:44-no-pad".into(), format!("{}A", &good[..43])));
  v.push(("b64:urlsafe".into(), good.replace('+', "-").replace('/', "_")));
  v
}

pub fn uniform_strings(rng: &mut ChaCha20Rng, count: usize) -> Vec<(String, Vec<u8>)> {
  let fixed = [0usize, 1, 2, 3, 4, 5, 7, 8, 23, 24, 25, 47, 48, 49, 72, 100, 163, 164, 165, 200];
  let mut out = Vec::new();
  for i in 0..count {
    let l = if i < fixed.len() { fixed[i] } else { rng.gen_range(0..400) };
    let b = match i % 4 {
      0 => vec![0u8; l],
      1 => vec![0xffu8; l],
      _ => rand_bytes(rng, l),
    };
    out.push((format!("uniform:{}", l), b));
  }
  out
}

// ---------------------------------------------------------------------------
// valid artefacts built with the layout model (structurally valid, not
// necessarily what an honest client would produce)

pub fn rand_elem(rng: &mut ChaCha20Rng) -> [u8; 24] {
  match rng.gen_range(0..8) {
    0 => [0u8; 24],
    1 => bf::to_le24(&(bf::p() - BigUint::one())),
    2 => bf::to_le24(&BigUint::one()),
    3 => {
      // canonical but above 2^128: the 12451 values of the top band
      let off: u32 = rng.gen_range(0..12451);
      bf::to_le24(&((BigUint::one() << 128) + BigUint::from(off)))
    }
    _ => {
      let mut b = [0u8; 24];
      rng.fill(&mut b[..16]);
      b
    }
  }
}

pub fn model_shark(rng: &mut ChaCha20Rng, ny: usize) -> SharkShare {
  SharkShare {
    x: rand_elem(rng),
    ys: (0..ny).map(|_| rand_elem(rng)).collect(),
  }
}

pub fn model_adss(rng: &mut ChaCha20Rng) -> (AdssShare, usize) {
  let ny = *pick(rng, &[0usize, 1, 1, 1, 2, 3]);
  let tail = *pick(rng, &[0usize, 0, 0, 1, 23]);
  let t = *pick(rng, &[0u32, 1, 2, 3, 50, u32::MAX, 0x8000_0000]);
  let cl = *pick(rng, &[0usize, 1, 4, 32, 33]);
  let dl = *pick(rng, &[0usize, 1, 4, 32]);
  let mut j = [0u8; 64];
  rng.fill(&mut j[..]);
  (
    AdssShare {
      t,
      s: model_shark(rng, ny),
      c: rand_bytes(rng, cl),
      d: rand_bytes(rng, dl),
      j,
    },
    tail,
  )
}

/// encode with `tail` extra bytes inside the S chunk (ignored partial element)
pub fn encode_adss_with_tail(rng: &mut ChaCha20Rng, a: &AdssShare, tail: usize) -> Vec<u8> {
  let mut s = a.s.encode();
  s.extend(rand_bytes(rng, tail));
  let mut out = Vec::new();
  layout::put_u32(a.t, &mut out);
  layout::put_chunk(&s, &mut out);
  layout::put_chunk(&a.c, &mut out);
  layout::put_chunk(&a.d, &mut out);
  out.extend_from_slice(&a.j);
  out
}

pub fn adss_fields(b: &[u8]) -> (Vec<(String, Range<usize>, u32)>, Vec<(String, Range<usize>)>) {
  let mut lens = Vec::new();
  let mut elems = Vec::new();
  if let Some((a, f)) = AdssShare::decode_with_fields(b) {
    let sl = (f.s_tail.end - f.x.start) as u32;
    lens.push(("S".to_string(), f.s_len.clone(), sl));
    lens.push(("C".to_string(), f.c_len.clone(), a.c.len() as u32));
    lens.push(("D".to_string(), f.d_len.clone(), a.d.len() as u32));
    lens.push(("threshold".to_string(), f.t.clone(), a.t));
    elems.push(("x".to_string(), f.x.clone()));
    for (i, y) in f.ys.iter().enumerate() {
      elems.push((format!("y{}", i), y.clone()));
    }
  }
  (lens, elems)
}

pub fn report_fields(b: &[u8]) -> (Vec<(String, Range<usize>, u32)>, Vec<(String, Range<usize>)>) {
  let mut lens = Vec::new();
  let mut elems = Vec::new();
  if let Some((_, f)) = Report::decode_with_fields(b) {
    lens.push(("ciphertext".to_string(), f.ct_len.clone(), f.ct.len() as u32));
    lens.push(("share".to_string(), f.share_len.clone(), f.share.len() as u32));
    lens.push(("tag".to_string(), f.tag_len.clone(), f.tag.len() as u32));
    let (l2, e2) = adss_fields(&b[f.share.clone()]);
    let base = f.share.start;
    for (n, r, v) in l2 {
      lens.push((format!("share.{}", n), r.start + base..r.end + base, v));
    }
    for (n, r) in e2 {
      elems.push((format!("share.{}", n), r.start + base..r.end + base));
    }
  }
  (lens, elems)
}

/// honest adss share bytes from the real code (so that mutations start from
/// what is actually on the wire)
pub fn honest_adss(rng: &mut ChaCha20Rng, t: u32) -> Option<Vec<u8>> {
  let ml = *pick(rng, &[0usize, 1, 4, 32, 40]);
  let rl = *pick(rng, &[0usize, 1, 32]);
  let m = rand_bytes(rng, ml);
  let r = rand_bytes(rng, rl);
  adss::Commune::new(t, m, r, None).share().ok().map(|s| s.to_bytes())
}

pub fn honest_report(rng: &mut ChaCha20Rng, t: u32) -> Option<(Vec<u8>, Vec<u8>, Vec<u8>)> {
  use sta_rs::*;
  let ml = *pick(rng, &[0usize, 1, 8, 32, 170]);
  let m = rand_bytes(rng, ml);
  let e = rand_bytes_in(rng, 0..5);
  let mg = MessageGenerator::new(SingleMeasurement::new(&m), t, &e);
  let mut rnd = [0u8; 32];
  mg.sample_local_randomness(&mut rnd);
  let aux = if rng.gen_bool(0.5) { Some(AssociatedData::new(&rand_bytes_in(rng, 0..40))) } else { None };
  let msg = Message::generate(&mg, &rnd, aux).ok()?;
  Some((msg.to_bytes(), m, e))
}

fn push_all(out: &mut Vec<Case>, target: Target, muts: Vec<(String, Vec<u8>)>) {
  for (d, b) in muts {
    out.push(Case::one(target, d, b));
  }
}

fn join_lines(lines: &[String]) -> Vec<u8> {
  lines.join("\n").into_bytes()
}

/// All cases of group `g`. Deterministic in (seed, g).
pub fn group(ctx: &Ctx, g: u64) -> Vec<Case> {
  use base64::{engine::Engine as _, prelude::BASE64_STANDARD};
  let mut rng = case_rng(ctx, "hostile-group", g);
  let rng = &mut rng;
  let th = ctx.thorough();
  let mut out: Vec<Case> = Vec::new();
  match g % 8 {
    0 => {
      // Shamir share encodings
      let ny = rng.gen_range(0..=16usize);
      let tail = *pick(rng, &[0usize, 0, 1, 12, 20, 23]);
      let mut v = model_shark(rng, ny).encode();
      v.extend(rand_bytes(rng, tail));
      let other = model_shark(rng, 2).encode();
      let elems: Vec<(String, Range<usize>)> = (0..=ny).map(|i| (format!("e{}", i), 24 * i..24 * (i + 1))).collect();
      push_all(&mut out, Target::SharksTryFrom, mutate(rng, &v, &[], &elems, &other, th));
      push_all(&mut out, Target::SharksTryFrom, uniform_strings(rng, 60));
      // load_bytes / load_u32 / AccessStructure on chunks
      let mut chunk = Vec::new();
      layout::put_chunk(&rand_bytes_in(rng, 0..40), &mut chunk);
      let cl = (chunk.len() - 4) as u32;
      push_all(&mut out, Target::LoadBytes, mutate(rng, &chunk, &[("len".into(), 0..4, cl)], &[], &[1, 2, 3], th));
      push_all(&mut out, Target::LoadBytes, uniform_strings(rng, 30));
      for l in 0..10 {
        out.push(Case::one(Target::LoadU32, format!("len:{}", l), rand_bytes(rng, l)));
        out.push(Case::one(Target::AccessStructure, format!("len:{}", l), rand_bytes(rng, l)));
      }
    }
    1 => {
      // adss share encodings: model-built unusual shapes
      let (a, tail) = model_adss(rng);
      let v = encode_adss_with_tail(rng, &a, tail);
      let (b, _) = model_adss(rng);
      let other = b.encode();
      let (lens, elems) = adss_fields(&v);
      let m = mutate(rng, &v, &lens, &elems, &other, th);
      push_all(&mut out, Target::AdssFromBytes, m.clone());
      push_all(&mut out, Target::StarShareFromBytes, m);
      push_all(&mut out, Target::AdssFromBytes, uniform_strings(rng, 40));
    }
    2 => {
      // adss share encodings: honest bytes from the real code
      let t = *pick(rng, &[0u32, 1, 2, 5, 50]);
      if let (Some(v), Some(other)) = (honest_adss(rng, t), honest_adss(rng, 2)) {
        let (lens, elems) = adss_fields(&v);
        let m = mutate(rng, &v, &lens, &elems, &other, th);
        push_all(&mut out, Target::AdssFromBytes, m.clone());
        push_all(&mut out, Target::StarShareFromBytes, m);
      }
    }
    3 => {
      // reports
      let t = *pick(rng, &[1u32, 2, 3]);
      if let (Some((v, _, _)), Some((other, _, _))) = (honest_report(rng, t), honest_report(rng, 2)) {
        let (lens, elems) = report_fields(&v);
        push_all(&mut out, Target::MessageFromBytes, mutate(rng, &v, &lens, &elems, &other, th));
      }
      // model-built report with unusual chunk sizes
      let (a, tail) = model_adss(rng);
      let sb = encode_adss_with_tail(rng, &a, tail);
      let mut v = Vec::new();
      layout::put_chunk(&rand_bytes_pick(rng, &[0usize, 1, 8, 166, 300]), &mut v);
      layout::put_chunk(&sb, &mut v);
      layout::put_chunk(&rand_bytes_pick(rng, &[0usize, 1, 32, 64]), &mut v);
      let (lens, elems) = report_fields(&v);
      push_all(&mut out, Target::MessageFromBytes, mutate(rng, &v, &lens, &elems, &sb, th));
      // degenerate chunk contents: empty / short share chunk
      for sl in [0usize, 1, 2, 3, 4, 5, 8, 12] {
        let mut v = Vec::new();
        layout::put_chunk(&rand_bytes(rng, 4), &mut v);
        layout::put_chunk(&rand_bytes(rng, sl), &mut v);
        layout::put_chunk(&rand_bytes(rng, 32), &mut v);
        out.push(Case::one(Target::MessageFromBytes, format!("share-chunk-len:{}", sl), v));
      }
      push_all(&mut out, Target::MessageFromBytes, uniform_strings(rng, 40));
    }
    4 => {
      // recovery on degenerate collections
      for _ in 0..(if th { 120 } else { 40 }) {
        // sharks
        let ny = *pick(rng, &[0usize, 0, 1, 2]);
        let n = rng.gen_range(0..6usize);
        let mut blobs: Vec<Vec<u8>> = (0..n)
          .map(|_| {
            let k = if rng.gen_bool(0.8) { ny } else { rng.gen_range(0..3) };
            model_shark(rng, k).encode()
          })
          .collect();
        if n > 1 && rng.gen_bool(0.3) {
          blobs[1] = blobs[0].clone();
        }
        let thr = *pick(rng, &[0u64, 1, 2, 3, u32::MAX as u64, 0x8000_0000]);
        out.push(Case { target: Target::SharksRecover, desc: format!("n={} ny={} t={}", n, ny, thr), blobs, num: thr });
        // adss / star
        let n = rng.gen_range(0..5usize);
        let proto = model_adss(rng).0;
        let mut blobs: Vec<Vec<u8>> = Vec::new();
        for i in 0..n {
          let mut a = if rng.gen_bool(0.7) { proto.clone() } else { model_adss(rng).0 };
          if i > 0 && rng.gen_bool(0.7) {
            a.s = model_shark(rng, proto.s.ys.len());
          }
          blobs.push(a.encode());
        }
        let desc = format!("n={} t={} ny={} |C|={} |D|={}", n, proto.t, proto.s.ys.len(), proto.c.len(), proto.d.len());
        out.push(Case { target: Target::AdssRecover, desc: desc.clone(), blobs: blobs.clone(), num: 0 });
        out.push(Case { target: Target::ShareRecover, desc, blobs, num: 0 });
      }
      // honest shares with the threshold rewritten
      if let Some(v) = honest_adss(rng, 2) {
        for t in [0u32, 1, 2, 3, u32::MAX] {
          let mut a = v.clone();
          a[..4].copy_from_slice(&t.to_le_bytes());
          out.push(Case { target: Target::AdssRecover, desc: format!("honest share, threshold:={}", t), blobs: vec![a.clone(), a.clone(), v.clone()], num: 0 });
          out.push(Case { target: Target::ShareRecover, desc: format!("honest share, threshold:={}", t), blobs: vec![a.clone(), v.clone()], num: 0 });
        }
      }
    }
    5 => {
      // public keys and proofs (bincode), JSON points / evaluations
      let ntags = *pick(rng, &[0usize, 1, 2, 8]);
      let tags: Vec<u8> = (0..ntags).map(|i| (i * 31 % 256) as u8).collect();
      if let Ok(server) = ppoprf::ppoprf::Server::new(tags.clone()) {
        let pk = server.get_public_key().serialize_to_bincode().unwrap_or_default();
        let mut lens = vec![];
        if pk.len() >= 40 {
          // u64 map length at 32..40 (two u32 halves for the mutator)
          lens.push(("map_len_lo".to_string(), 32..36, ntags as u32));
          lens.push(("map_len_hi".to_string(), 36..40, 0u32));
        }
        push_all(&mut out, Target::PkLoad, mutate(rng, &pk, &lens, &[], &pk.clone(), th));
        push_all(&mut out, Target::PkLoad, uniform_strings(rng, 30));
        for big in [16384usize, 16385, 16384 * 10] {
          out.push(Case::one(Target::PkLoad, format!("size:{}", big), vec![98u8; big]));
        }
        if let Some(&md) = tags.first() {
          let (bp, _) = ppoprf::ppoprf::Client::blind(b"hostile");
          if let Ok(ev) = server.eval(&bp, md, true) {
            let pr = ev.proof.as_ref().unwrap().serialize_to_bincode().unwrap_or_default();
            push_all(&mut out, Target::ProofLoad, mutate(rng, &pr, &[], &[], &pr.clone(), th));
            let js = serde_json::to_vec(&ev).unwrap_or_default();
            push_all(&mut out, Target::JsonEvaluation, mutate(rng, &js, &[], &[], b"{}", th));
            let jp = serde_json::to_vec(&bp).unwrap_or_default();
            push_all(&mut out, Target::JsonPoint, mutate(rng, &jp, &[], &[], b"[]", th));
          }
        }
        push_all(&mut out, Target::ProofLoad, uniform_strings(rng, 30));
        for (d, s) in b64_output_strings(rng) {
          for proof in ["null", "{\"c\":[0,0,0,0,0,0,0,0,0,0,0,0,0,0,0,0,0,0,0,0,0,0,0,0,0,0,0,0,0,0,0,0],\"s\":[1,0,0,0,0,0,0,0,0,0,0,0,0,0,0,0,0,0,0,0,0,0,0,0,0,0,0,0,0,0,0,0]}"] {
            let js = format!("{{\"output\":{},\"proof\":{}}}", serde_json::to_string(&s).unwrap_or_default(), proof);
            out.push(Case::one(Target::JsonEvaluation, format!("json-output:{}", d), js.into_bytes()));
          }
        }
        for s in ["", "null", "{}", "[]", "{\"output\":\"\",\"proof\":null}", "{\"output\":\"!!!!\",\"proof\":null}",
                  "{\"output\":\"AAAA\",\"proof\":null}", "{\"output\":5}", "{\"proof\":null}", "\"\\u0041\"",
                  "{\"output\":\"AAAAAAAAAAAAAAAAAAAAAAAAAAAAAAAAAAAAAAAAAAA=\",\"proof\":{\"c\":[1],\"s\":[2]}}"] {
          out.push(Case::one(Target::JsonEvaluation, format!("json:{}", s), s.as_bytes().to_vec()));
          out.push(Case::one(Target::JsonPoint, format!("json:{}", s), s.as_bytes().to_vec()));
        }
      }
    }
    6 => {
      // Server::eval on arbitrary points; Client::verify on arbitrary tuples
      let tags = vec![0u8, 1, 7, 255];
      if let Ok(server) = ppoprf::ppoprf::Server::new(tags.clone()) {
        let pk = server.get_public_key().serialize_to_bincode().unwrap_or_default();
        let (bp, _) = ppoprf::ppoprf::Client::blind(&rand_bytes(rng, 8));
        let honest = server.eval(&bp, 7, true).ok();
        let mut points: Vec<Vec<u8>> = vec![vec![0u8; 32], vec![0xff; 32], bp.as_bytes().to_vec()];
        let mut one = vec![0u8; 32];
        one[0] = 1;
        points.push(one);
        for _ in 0..12 {
          points.push(rand_bytes(rng, 32));
        }
        for p in &points {
          for md in [0u8, 1, 2, 3, 7, 200, 255] {
            for ver in [0u64, 1] {
              out.push(Case { target: Target::ServerEval, desc: format!("md={} verifiable={}", md, ver), blobs: vec![p.clone()], num: md as u64 | ver << 8 });
              out.push(Case { target: Target::ServerEval, desc: format!("md={} verifiable={} (server that imported its key)", md, ver), blobs: vec![p.clone()], num: md as u64 | ver << 8 | 1 << 9 });
            }
          }
        }
        // servers with a puncture history (all 256 tags registered; see exec::punctured_server):
        // every tag, punctured or not, asked for by a client
        // (not under the Miri interpreter: generating one 256-tag key there takes tens of minutes;
        // the native, ASan and valgrind stages run all eight histories)
        let n_hist = if ctx.stage == "miri" { 0 } else { crate::exec::PUNCTURE_HISTORIES.len() as u64 };
        for hist in 0..n_hist {
          for md in 0..=255u8 {
            let ver = (md as u64 + hist) & 1;
            let p = if md % 3 == 0 { bp.as_bytes().to_vec() } else { points[(md as usize) % points.len()].clone() };
            out.push(Case { target: Target::ServerEval, desc: format!("md={} verifiable={} (server after puncture history {})", md, ver, hist), blobs: vec![p], num: md as u64 | ver << 8 | (hist + 1) << 10 });
          }
        }
        if let Some(ev) = honest {
          let proof = ev.proof.as_ref().unwrap().serialize_to_bincode().unwrap_or_default();
          let outp = ev.output.as_bytes().to_vec();
          // every position: pk (base / per-tag points garbled), input, output, proof missing, md
          let mut pks: Vec<(String, Vec<u8>)> = vec![("honest".into(), pk.clone())];
          for (name, off) in [("base", 0usize), ("tag0", 41), ("tag7", 41 + 33 * 2), ("tag255", 41 + 33 * 3)] {
            for garb in [vec![0xffu8; 32], rand_bytes(rng, 32), vec![0u8; 32]] {
              if off + 32 <= pk.len() {
                let mut b = pk.clone();
                b[off..off + 32].copy_from_slice(&garb);
                pks.push((format!("pk.{}:={}", name, hex_short(&garb[..4])), b));
              }
            }
          }
          for (pn, pkb) in &pks {
            for (inn, inp) in [("honest", bp.as_bytes().to_vec()), ("ff", vec![0xff; 32]), ("rand", rand_bytes(rng, 32)), ("zero", vec![0; 32])] {
              for (on, o) in [("honest", outp.clone()), ("ff", vec![0xff; 32]), ("rand", rand_bytes(rng, 32))] {
                for (prn, pr) in [("honest", proof.clone()), ("missing", vec![]), ("rand", { let mut r = rand_bytes(rng, 64); r[31] &= 0x0f; r[63] &= 0x0f; r })] {
                  for md in [7u8, 0, 3] {
                    out.push(Case {
                      target: Target::ClientVerify,
                      desc: format!("pk={} input={} output={} proof={} md={}", pn, inn, on, prn, md),
                      blobs: vec![pkb.clone(), inp.clone(), o.clone(), pr.clone()],
                      num: md as u64,
                    });
                  }
                }
              }
            }
          }
        }
      }
    }
    _ => {
      // WASM grouping call: base64 lines
      let t = *pick(rng, &[1u32, 2, 3]);
      let epoch = *pick(rng, &["", "t", "2024-é", "epoch\u{1F600}"]);
      let m = rand_bytes_in(rng, 0..20);
      let mut lines: Vec<String> = Vec::new();
      for _ in 0..t + 1 {
        let js = star_wasm::create_share(&m, t, epoch);
        if let Ok(v) = serde_json::from_str::<serde_json::Value>(&js) {
          if let Some(s) = v["share"].as_str() {
            lines.push(s.to_string());
          }
        }
      }
      let ep = epoch.as_bytes().to_vec();
      let mut add = |desc: String, s: Vec<u8>| {
        if std::str::from_utf8(&s).is_ok() {
          out.push(Case { target: Target::GroupShares, desc, blobs: vec![s, ep.clone()], num: 0 });
        }
      };
      add("honest".into(), join_lines(&lines));
      // authentic adss shares (valid MAC) of communes with other message / coin lengths
      for (ml, rl) in [(0usize, 32usize), (5, 32), (33, 32), (32, 0), (31, 5), (64, 64), (1000, 1)] {
        let mm = rand_bytes(rng, ml);
        let rr = rand_bytes(rng, rl);
        let ls: Vec<String> = (0..t + 1)
          .filter_map(|_| adss::Commune::new(t, mm.clone(), rr.clone(), None).share().ok())
          .map(|s| BASE64_STANDARD.encode(s.to_bytes()))
          .collect();
        add(format!("authentic-commune |M|={} |R|={}", ml, rl), join_lines(&ls));
      }
      for s in ["", "\n", "!!!", "AAAA", "A", "====", "AA==\nAA==", " ", "\r\n", "é", "AAAAAAAAAAAAAAAAAAAAAAAAAAAAAAAAAAAAAAAAAAA="] {
        add(format!("literal:{:?}", s), s.as_bytes().to_vec());
      }
      if !lines.is_empty() {
        let good = join_lines(&lines);
        add("trailing-newline".into(), [good.clone(), b"\n".to_vec()].concat());
        add("crlf".into(), lines.join("\r\n").into_bytes());
        add("empty-line-inside".into(), format!("{}\n\n{}", lines[0], lines[lines.len() - 1]).into_bytes());
        add("leading-newline".into(), [b"\n".to_vec(), good.clone()].concat());
        // character-level faults
        for _ in 0..(if th { 300 } else { 80 }) {
          let mut b = good.clone();
          let o = rng.gen_range(0..b.len());
          b[o] = *pick(rng, &[b'!', b'=', b' ', b'\n', b'A', b'/', b'-', b'_', 0x7f]);
          add(format!("char:{}", o), b);
        }
        // truncations of the text
        for _ in 0..40 {
          let c = rng.gen_range(0..good.len());
          add(format!("text-prefix:{}", c), good[..c].to_vec());
        }
        // valid base64 of mutated share bytes
        if let Ok(raw) = BASE64_STANDARD.decode(&lines[0]) {
          let (lens, elems) = adss_fields(&raw);
          for (d, b) in mutate(rng, &raw, &lens, &elems, &raw.clone(), false).into_iter().take(if th { 4000 } else { 700 }) {
            let mut ls = vec![BASE64_STANDARD.encode(&b)];
            ls.extend(lines[1..].iter().cloned());
            add(format!("b64({})", d), join_lines(&ls));
          }
          // url-safe alphabet, no padding
          let s = BASE64_STANDARD.encode(&raw).replace('+', "-").replace('/', "_");
          add("urlsafe".into(), s.trim_end_matches('=').as_bytes().to_vec());
        }
      }
    }
  }
  out
}
