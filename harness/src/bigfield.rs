//! Independent big-integer model of GF(p), p = 2^128 + 12451, and of Shamir
//! evaluation / interpolation. Uses num-bigint only; shares no code with `ff`.

use num_bigint::BigUint;
use num_integer::Integer;
use num_traits::{One, Zero};

pub const ELEM: usize = 24;

pub fn p() -> BigUint {
  (BigUint::one() << 128) + BigUint::from(12451u32)
}

pub fn from_le(b: &[u8]) -> BigUint {
  BigUint::from_bytes_le(b)
}

/// 24-byte little-endian encoding of v (v < 2^192)
pub fn to_le24(v: &BigUint) -> [u8; 24] {
  let b = v.to_bytes_le();
  let mut out = [0u8; 24];
  assert!(b.len() <= 24 || v.is_zero());
  for (i, x) in b.iter().enumerate().take(24) {
    out[i] = *x;
  }
  out
}

pub fn add(a: &BigUint, b: &BigUint) -> BigUint {
  (a + b) % p()
}
pub fn sub(a: &BigUint, b: &BigUint) -> BigUint {
  let pp = p();
  ((a % &pp) + &pp - (b % &pp)) % pp
}
pub fn neg(a: &BigUint) -> BigUint {
  let pp = p();
  (&pp - (a % &pp)) % pp
}
pub fn mul(a: &BigUint, b: &BigUint) -> BigUint {
  (a * b) % p()
}
pub fn pow(a: &BigUint, e: &BigUint) -> BigUint {
  a.modpow(e, &p())
}
/// inverse by the extended Euclidean algorithm (not Fermat: independent of pow)
pub fn inv(a: &BigUint) -> Option<BigUint> {
  use num_bigint::BigInt;
  let pp = p();
  let a = a % &pp;
  if a.is_zero() {
    return None;
  }
  let (mut r0, mut r1) = (BigInt::from(pp.clone()), BigInt::from(a));
  let (mut t0, mut t1) = (BigInt::zero(), BigInt::one());
  while !r1.is_zero() {
    let q = &r0 / &r1;
    let r2 = &r0 - &q * &r1;
    let t2 = &t0 - &q * &t1;
    r0 = r1;
    r1 = r2;
    t0 = t1;
    t1 = t2;
  }
  if !r0.is_one() {
    return None;
  }
  let ppi = BigInt::from(pp);
  let t = ((t0 % &ppi) + &ppi) % &ppi;
  Some(t.to_biguint().unwrap())
}

/// Horner evaluation; `coeffs` highest degree first (as the dealer stores them)
pub fn horner_high_first(coeffs: &[BigUint], x: &BigUint) -> BigUint {
  let pp = p();
  let mut acc = BigUint::zero();
  for c in coeffs {
    acc = (acc * x + c) % &pp;
  }
  acc
}

/// Lagrange interpolation at zero over points with pairwise distinct x.
pub fn lagrange_at_zero(pts: &[(BigUint, BigUint)]) -> Option<BigUint> {
  let pp = p();
  let mut acc = BigUint::zero();
  for (i, (xi, yi)) in pts.iter().enumerate() {
    let mut num = BigUint::one();
    let mut den = BigUint::one();
    for (j, (xj, _)) in pts.iter().enumerate() {
      if i == j {
        continue;
      }
      num = (num * xj) % &pp;
      den = (den * sub(xj, xi)) % &pp;
    }
    let term = (yi * num % &pp) * inv(&den)? % &pp;
    acc = (acc + term) % &pp;
  }
  Some(acc)
}

/// Newton interpolation to coefficient form (lowest degree first).
pub fn interpolate_coeffs(pts: &[(BigUint, BigUint)]) -> Option<Vec<BigUint>> {
  let pp = p();
  let n = pts.len();
  // divided differences
  let mut dd: Vec<BigUint> = pts.iter().map(|(_, y)| y % &pp).collect();
  for k in 1..n {
    for i in (k..n).rev() {
      let num = sub(&dd[i], &dd[i - 1]);
      let den = sub(&pts[i].0, &pts[i - k].0);
      dd[i] = num * inv(&den)? % &pp;
    }
  }
  // expand Newton form: sum dd[k] * prod_{j<k} (x - x_j)
  let mut coeffs = vec![BigUint::zero(); n];
  let mut basis = vec![BigUint::zero(); n + 1];
  basis[0] = BigUint::one();
  let mut deg = 0usize;
  for k in 0..n {
    for d in 0..=deg {
      coeffs[d] = (&coeffs[d] + &dd[k] * &basis[d]) % &pp;
    }
    // basis *= (x - x_k)
    let xk = &pts[k].0;
    let mut nb = vec![BigUint::zero(); n + 1];
    for d in 0..=deg {
      nb[d + 1] = (&nb[d + 1] + &basis[d]) % &pp;
      nb[d] = (&nb[d] + neg(&(xk * &basis[d] % &pp))) % &pp;
    }
    basis = nb;
    deg += 1;
  }
  Some(coeffs)
}

pub fn eval_low_first(coeffs: &[BigUint], x: &BigUint) -> BigUint {
  let pp = p();
  let mut acc = BigUint::zero();
  for c in coeffs.iter().rev() {
    acc = (acc * x + c) % &pp;
  }
  acc
}

/// deterministic Miller-Rabin with the first 24 primes as bases plus a few
/// large ones (error probability irrelevant at this size for fixed inputs)
pub fn is_probable_prime(n: &BigUint) -> bool {
  let two = BigUint::from(2u32);
  if n < &two {
    return false;
  }
  let small: [u32; 24] = [
    2, 3, 5, 7, 11, 13, 17, 19, 23, 29, 31, 37, 41, 43, 47, 53, 59, 61, 67, 71,
    73, 79, 83, 89,
  ];
  for s in small.iter() {
    let s = BigUint::from(*s);
    if n == &s {
      return true;
    }
    if (n % &s).is_zero() {
      return false;
    }
  }
  let nm1 = n - BigUint::one();
  let mut d = nm1.clone();
  let mut r = 0u32;
  while d.is_even() {
    d >>= 1;
    r += 1;
  }
  'outer: for s in small.iter() {
    let a = BigUint::from(*s);
    let mut x = a.modpow(&d, n);
    if x.is_one() || x == nm1 {
      continue;
    }
    for _ in 1..r {
      x = (&x * &x) % n;
      if x == nm1 {
        continue 'outer;
      }
    }
    return false;
  }
  true
}

/// Euler criterion: is `a` a non-zero quadratic residue mod p?
pub fn is_qr(a: &BigUint) -> bool {
  let pp = p();
  let a = a % &pp;
  if a.is_zero() {
    return false;
  }
  let e = (&pp - BigUint::one()) >> 1;
  a.modpow(&e, &pp).is_one()
}
