//! Shared infrastructure of the monitors: run context, event recorder,
//! deterministic per-case RNG, panic capture, parallel driver.

use rand_chacha::rand_core::SeedableRng;
use rand_chacha::ChaCha20Rng;
use serde_json::{json, Value};
use std::cell::RefCell;
use std::collections::{BTreeMap, HashSet};
use std::hash::{Hash, Hasher};
use std::panic::{catch_unwind, AssertUnwindSafe};
use std::sync::atomic::{AtomicU64, AtomicUsize, Ordering};
use std::sync::Mutex;

#[derive(Clone, Copy, PartialEq, Eq, Debug)]
pub enum Tier {
  Quick,
  Thorough,
}

#[derive(Clone, Debug)]
pub struct Ctx {
  pub prop: String,
  pub tier: Tier,
  pub seed: u64,
  pub threads: usize,
  /// multiplies every workload size (used by the slow engines: Miri, valgrind)
  pub scale: f64,
  /// free-form stage name ("release", "dev", "asan", "miri", ...)
  pub stage: String,
  pub extra: BTreeMap<String, String>,
}

impl Ctx {
  pub fn n(&self, quick: u64, thorough: u64) -> u64 {
    let base = if self.tier == Tier::Quick { quick } else { thorough };
    let v = (base as f64 * self.scale).ceil() as u64;
    v.max(1)
  }
  pub fn thorough(&self) -> bool {
    self.tier == Tier::Thorough
  }
  pub fn flag(&self, k: &str) -> bool {
    self.extra.get(k).map(|v| v != "0").unwrap_or(false)
  }
}

/// FNV-1a based 64-bit mixer: stable across runs and platforms (std's
/// DefaultHasher is randomly keyed only through RandomState, but we do not
/// rely on it anyway).
pub fn h64(parts: &[&[u8]]) -> u64 {
  let mut h: u64 = 0xcbf29ce484222325;
  for p in parts {
    for b in (p.len() as u64).to_le_bytes().iter().chain(p.iter()) {
      h ^= *b as u64;
      h = h.wrapping_mul(0x100000001b3);
    }
  }
  // final avalanche (splitmix64)
  h ^= h >> 30;
  h = h.wrapping_mul(0xbf58476d1ce4e5b9);
  h ^= h >> 27;
  h = h.wrapping_mul(0x94d049bb133111eb);
  h ^= h >> 31;
  h
}

pub fn hkey<T: Hash>(t: &T) -> u64 {
  struct Fnv(u64);
  impl Hasher for Fnv {
    fn finish(&self) -> u64 {
      let mut h = self.0;
      h ^= h >> 30;
      h = h.wrapping_mul(0xbf58476d1ce4e5b9);
      h ^= h >> 27;
      h = h.wrapping_mul(0x94d049bb133111eb);
      h ^= h >> 31;
      h
    }
    fn write(&mut self, bytes: &[u8]) {
      for b in bytes {
        self.0 ^= *b as u64;
        self.0 = self.0.wrapping_mul(0x100000001b3);
      }
    }
  }
  let mut f = Fnv(0xcbf29ce484222325);
  t.hash(&mut f);
  f.finish()
}

/// Per-case generator RNG: a function of (seed, property, stream, index) only,
/// so a case is reproducible whatever thread ran it.
pub fn case_rng(ctx: &Ctx, stream: &str, idx: u64) -> ChaCha20Rng {
  let h = h64(&[
    &ctx.seed.to_le_bytes(),
    ctx.prop.as_bytes(),
    stream.as_bytes(),
    &idx.to_le_bytes(),
  ]);
  let h2 = h64(&[&h.to_le_bytes(), b"second"]);
  let mut seed = [0u8; 32];
  seed[..8].copy_from_slice(&h.to_le_bytes());
  seed[8..16].copy_from_slice(&h2.to_le_bytes());
  seed[16..24].copy_from_slice(&ctx.seed.to_le_bytes());
  seed[24..32].copy_from_slice(&idx.to_le_bytes());
  ChaCha20Rng::from_seed(seed)
}

pub fn hex(b: &[u8]) -> String {
  let mut s = String::with_capacity(b.len() * 2);
  for x in b {
    s.push_str(&format!("{:02x}", x));
  }
  s
}

pub fn hex_short(b: &[u8]) -> String {
  if b.len() <= 40 {
    hex(b)
  } else {
    format!("{}..{}(len {})", hex(&b[..16]), hex(&b[b.len() - 8..]), b.len())
  }
}

pub fn unhex(s: &str) -> Option<Vec<u8>> {
  if s.len() % 2 != 0 {
    return None;
  }
  (0..s.len() / 2)
    .map(|i| u8::from_str_radix(&s[2 * i..2 * i + 2], 16).ok())
    .collect()
}

#[derive(Clone, Debug)]
pub struct Violation {
  /// stable signature: what known_findings.json is keyed on
  pub sig: String,
  pub detail: String,
  pub replay: Value,
}

const MAX_VIOLATIONS_KEPT: usize = 40;
const MAX_SAMPLES: usize = 8;

#[derive(Default)]
pub struct Rec {
  pub counters: BTreeMap<String, u64>,
  pub distinct: HashSet<u64>,
  pub states: HashSet<u64>,
  pub transitions: u64,
  pub samples: Vec<Value>,
  pub violations: Vec<Violation>,
  pub violation_count: u64,
  pub viol_sigs: BTreeMap<String, u64>,
  pub notes: BTreeMap<String, Value>,
  /// positive controls: name -> (fired as expected, failed)
  pub controls: BTreeMap<String, (u64, u64)>,
  pub exhaustive: bool,
  /// cases generated / executions run (if 0, the sum of all counters is used)
  pub evals: u64,
}

impl Rec {
  pub fn new() -> Self {
    Default::default()
  }
  pub fn ev(&mut self, kind: &str) {
    *self.counters.entry(kind.to_string()).or_insert(0) += 1;
  }
  pub fn evn(&mut self, kind: &str, n: u64) {
    *self.counters.entry(kind.to_string()).or_insert(0) += n;
  }
  pub fn case<T: Hash>(&mut self, key: &T) {
    self.distinct.insert(hkey(key));
  }
  pub fn state<T: Hash>(&mut self, key: &T) {
    self.states.insert(hkey(key));
  }
  pub fn sample(&mut self, v: Value) {
    if self.samples.len() < MAX_SAMPLES {
      self.samples.push(v);
    }
  }
  pub fn control(&mut self, name: &str, ok: bool) {
    let e = self.controls.entry(name.to_string()).or_insert((0, 0));
    if ok {
      e.0 += 1
    } else {
      e.1 += 1
    }
  }
  pub fn violation(&mut self, sig: &str, detail: String, replay: Value) {
    self.violation_count += 1;
    *self.viol_sigs.entry(sig.to_string()).or_insert(0) += 1;
    // keep the first few of every signature
    let same = self.violations.iter().filter(|v| v.sig == sig).count();
    if same < 3 && self.violations.len() < MAX_VIOLATIONS_KEPT {
      self.violations.push(Violation {
        sig: sig.to_string(),
        detail,
        replay,
      });
    }
  }
  pub fn note(&mut self, k: &str, v: Value) {
    self.notes.insert(k.to_string(), v);
  }
  pub fn merge(&mut self, o: Rec) {
    for (k, v) in o.counters {
      *self.counters.entry(k).or_insert(0) += v;
    }
    self.distinct.extend(o.distinct);
    self.states.extend(o.states);
    self.transitions += o.transitions;
    for s in o.samples {
      self.sample(s);
    }
    self.violation_count += o.violation_count;
    for (k, v) in o.viol_sigs {
      *self.viol_sigs.entry(k).or_insert(0) += v;
    }
    for v in o.violations {
      let same = self.violations.iter().filter(|x| x.sig == v.sig).count();
      if same < 3 && self.violations.len() < MAX_VIOLATIONS_KEPT {
        self.violations.push(v);
      }
    }
    for (k, v) in o.notes {
      self.notes.entry(k).or_insert(v);
    }
    for (k, (a, b)) in o.controls {
      let e = self.controls.entry(k).or_insert((0, 0));
      e.0 += a;
      e.1 += b;
    }
    self.exhaustive |= o.exhaustive;
    self.evals += o.evals;
  }
  pub fn to_json(&self) -> Value {
    json!({
      "counters": self.counters,
      "distinct": self.distinct.len(),
      "states": self.states.len(),
      "transitions": self.transitions,
      "samples": self.samples,
      "violation_count": self.violation_count,
      "violation_sigs": self.viol_sigs,
      "violations": self.violations.iter().map(|v| json!({"sig": v.sig, "detail": v.detail, "replay": v.replay})).collect::<Vec<_>>(),
      "notes": self.notes,
      "controls": self.controls.iter().map(|(k,(a,b))| (k.clone(), json!({"ok": a, "failed": b}))).collect::<BTreeMap<_,_>>(),
      "exhaustive": self.exhaustive,
      "evals": self.evals,
    })
  }
}

// ---------------------------------------------------------------------------
// panic capture

thread_local! {
  static LAST_PANIC: RefCell<Option<(String, String)>> = RefCell::new(None);
  static QUIET: RefCell<u32> = RefCell::new(0);
}

pub static PANICS_SEEN: AtomicU64 = AtomicU64::new(0);

pub fn install_panic_hook() {
  std::panic::set_hook(Box::new(|info| {
    let loc = info
      .location()
      .map(|l| format!("{}:{}", l.file(), l.line()))
      .unwrap_or_else(|| "?".into());
    let msg = if let Some(s) = info.payload().downcast_ref::<&str>() {
      s.to_string()
    } else if let Some(s) = info.payload().downcast_ref::<String>() {
      s.clone()
    } else {
      "<non-string panic>".to_string()
    };
    PANICS_SEEN.fetch_add(1, Ordering::Relaxed);
    LAST_PANIC.with(|p| *p.borrow_mut() = Some((loc, msg)));
  }));
}

/// Strip the checkout prefix so that signatures do not depend on where the
/// tree lives, and drop the line number's dependence on nothing else.
pub fn norm_loc(loc: &str) -> String {
  let l = loc.replace('\\', "/");
  if let Some(i) = l.find("/repo/") {
    return l[i + 6..].to_string();
  }
  if let Some(i) = l.find("/registry/src/") {
    let rest = &l[i + 14..];
    if let Some(j) = rest.find('/') {
      return format!("dep:{}", &rest[j + 1..]);
    }
  }
  if let Some(i) = l.find("/library/") {
    return format!("std:{}", &l[i + 9..]);
  }
  l
}

pub struct Caught {
  pub loc: String,
  pub msg: String,
}

/// Run `f`, converting a panic into `Err(Caught)`.
pub fn guarded<T>(f: impl FnOnce() -> T) -> Result<T, Caught> {
  LAST_PANIC.with(|p| *p.borrow_mut() = None);
  match catch_unwind(AssertUnwindSafe(f)) {
    Ok(v) => Ok(v),
    Err(_) => {
      let (loc, msg) = LAST_PANIC
        .with(|p| p.borrow_mut().take())
        .unwrap_or(("?".into(), "?".into()));
      Err(Caught {
        loc: norm_loc(&loc),
        msg,
      })
    }
  }
}

/// For calls with hostile input inside monitors whose property is not
/// crash-freedom: a panic is "no answer" and is only counted (C09 owns it).
pub fn quiet<T>(rec: &mut Rec, f: impl FnOnce() -> T) -> Option<T> {
  match guarded(f) {
    Ok(v) => Some(v),
    Err(_) => {
      rec.ev("panic_in_code_under_test(counted, owned by C09)");
      None
    }
  }
}

// ---------------------------------------------------------------------------
// parallel driver

/// Runs `f(rec, idx, rng)` for idx in 0..n on `ctx.threads` threads. A panic
/// that escapes `f` is recorded as a violation of the running property with
/// signature `panic:<location>` (honest workloads must not panic; monitors wrap
/// hostile calls in `quiet`).
pub fn par_run<F>(ctx: &Ctx, stream: &str, n: u64, f: F) -> Rec
where
  F: Fn(&mut Rec, u64, &mut ChaCha20Rng) + Sync,
{
  let next = AtomicU64::new(0);
  let total = Mutex::new(Rec::new());
  let threads = ctx.threads.max(1).min(n.max(1) as usize);
  let live = AtomicUsize::new(threads);
  std::thread::scope(|s| {
    for _ in 0..threads {
      s.spawn(|| {
        let mut rec = Rec::new();
        loop {
          let i = next.fetch_add(1, Ordering::Relaxed);
          if i >= n {
            break;
          }
          let mut rng = case_rng(ctx, stream, i);
          let r = guarded(|| f(&mut rec, i, &mut rng));
          if let Err(c) = r {
            rec.violation(
              &format!("panic:{}", strip_line(&c.loc)),
              format!("monitor case {}[{}] panicked at {}: {}", stream, i, c.loc, c.msg),
              json!({"kind":"panic","stream":stream,"index":i,"seed":ctx.seed,"location":c.loc,"message":c.msg}),
            );
          }
        }
        total.lock().unwrap().merge(rec);
        live.fetch_sub(1, Ordering::Relaxed);
      });
    }
  });
  total.into_inner().unwrap()
}

/// `file.rs:123` -> `file.rs` (signatures must survive unrelated edits)
pub fn strip_line(loc: &str) -> String {
  match loc.rfind(':') {
    Some(i) if loc[i + 1..].chars().all(|c| c.is_ascii_digit()) => {
      loc[..i].to_string()
    }
    _ => loc.to_string(),
  }
}

pub fn rand_bytes(rng: &mut impl rand::RngCore, n: usize) -> Vec<u8> {
  let mut v = vec![0u8; n];
  rng.fill_bytes(&mut v);
  v
}

pub fn pick<'a, T>(rng: &mut impl rand::Rng, xs: &'a [T]) -> &'a T {
  &xs[rng.gen_range(0..xs.len())]
}

/// does `needle` occur in `hay` at any byte offset?
pub fn find_sub(hay: &[u8], needle: &[u8]) -> Option<usize> {
  if needle.is_empty() || needle.len() > hay.len() {
    return None;
  }
  hay.windows(needle.len()).position(|w| w == needle)
}

pub fn rand_bytes_in(rng: &mut impl rand::Rng, r: std::ops::Range<usize>) -> Vec<u8> {
  let n = rng.gen_range(r);
  rand_bytes(rng, n)
}

pub fn rand_bytes_pick(rng: &mut impl rand::Rng, lens: &[usize]) -> Vec<u8> {
  let n = *pick(rng, lens);
  rand_bytes(rng, n)
}

/// does any `w`-byte window of `needle` occur in `hay`? Returns (offset in needle, offset in hay).
/// Used for uniform secrets: a partial leak (e.g. an unencrypted tail) is still found.
pub fn find_any_window(hay: &[u8], needle: &[u8], w: usize) -> Option<(usize, usize)> {
  if needle.len() < w || hay.len() < w {
    return None;
  }
  let mut idx: std::collections::HashMap<&[u8], usize> = std::collections::HashMap::with_capacity(hay.len());
  for (i, win) in hay.windows(w).enumerate() {
    idx.entry(win).or_insert(i);
  }
  for (j, win) in needle.windows(w).enumerate() {
    if let Some(i) = idx.get(win) {
      return Some((j, *i));
    }
  }
  None
}
