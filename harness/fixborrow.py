import re,sys
for p in sys.argv[1:]:
    s=open(p).read()
    s=re.sub(r'rand_bytes\((&mut \w+|\w+), \w+\.gen_range\(([^()]*)\)\)', r'rand_bytes_in(\1, \2)', s)
    s=re.sub(r'rand_bytes\((&mut \w+|\w+), \*pick\((?:&mut )?\w+, (&\[[^\]]*\])\)\)', r'rand_bytes_pick(\1, \2)', s)
    open(p,'w').write(s)
