#!/bin/sh
# Runs every kept seeded change the official way: apply to /repo, run the
# property's quick check (evidence/replays redirected to a scratch dir), undo.
# Usage: sh seeded_official.sh [tier] [glob, default *]
TIER=${1:-quick}
OUT=/tmp/seeded-official-$$
mkdir -p $OUT
cd /verif
git -C /repo diff --quiet || { echo "/repo has local changes, refusing"; exit 2; }
PAT=${2:-*}
for d in seeded/$PAT/; do
  n=$(basename $d)
  p=$(python3 -c "import json;print(json.load(open('$d/meta.json'))['property'])")
  git -C /repo apply --whitespace=nowarn $PWD/$d/patch.diff || { echo "$n APPLY-FAILED"; continue; }
  VERIF_OUT=$OUT python3 check.py $p $TIER > $OUT/$n.log 2>&1
  rc=$?
  git -C /repo checkout -- .
  git -C /repo clean -fdq
  sig=$(grep -m3 "signature:" $OUT/$n.log | sed 's/.*signature: //' | tr '\n' ' ')
  echo "$n $p rc=$rc $sig"
done
git -C /repo status --short
rm -rf $OUT
