#!/usr/bin/env python3
"""Regenerates MANIFEST.json from props.py (single source of truth for the claimed checks)."""
import json, os, sys
HERE = os.path.dirname(os.path.abspath(__file__))
sys.path.insert(0, HERE)
from props import PROPS, NOT_APPLICABLE, MANIFEST_TEXT

ALL = ["C%02d" % i for i in range(1, 19)]
checks = []
for pid in sorted(PROPS):
    t = MANIFEST_TEXT[pid]
    checks.append({
        "property_id": pid,
        "quick_cmd": "python3 check.py %s quick" % pid,
        "thorough_cmd": "python3 check.py %s thorough" % pid,
        "evidence_file": "/verif/evidence/%s.json" % pid,
        "replay_cmd_template": "python3 check.py --replay {path}",
        "engine": "mon",
        "level_claimed": {"category": PROPS[pid]["level"], "text": t["level_text"], "design_ref": "DESIGN.md §3 " + pid},
        "level_note": t["level_note"],
        "technique": t["technique"],
    })
na = [{"property_id": p, "reason": NOT_APPLICABLE.get(p, "monitor not built yet in this tree")} for p in ALL if p not in PROPS]
m = {
    "version": 1,
    "setup_cmd": "python3 check.py --setup",
    "hooks": {
        "guard": "cargo feature `verif-hooks` (crates ppoprf and star-test-utils), off by default",
        "enable": "the harness crate /verif/harness depends on /repo/ppoprf and /repo/star/test-utils by path with features = [\"verif-hooks\"] (ppoprf also \"key-sync\")",
        "baseline_off_cmd": "cd /repo && cargo test --workspace --no-fail-fast --offline",
        "source_commits": ["1f075c0", "90f989e"],
        "add_only": True,
    },
    "engines": [
        {"name": "mon", "path": "/verif/harness", "serves_properties": sorted(PROPS),
         "kind_free_text": "Rust binary linking the real crates from /repo by path; seeded hostile/stress workloads; independent oracles (num-bigint field model, wire-layout parser, sequential reference models); event recorder; run by check.py in release and dev builds and, in the thorough tier, under ASan, TSan, Miri, valgrind and libFuzzer"},
    ],
    "checks": checks,
    "not_applicable": na,
    "notes": "Verdicts are three-valued: exit 0 held on what was observed, exit 1 VIOLATION, exit 2 INCONCLUSIVE (watchdog, build failure, starved monitor, failed positive control). VERIF_SEED selects the workload seed. Known findings: /verif/known_findings.json.",
}
json.dump(m, open(os.path.join(HERE, "MANIFEST.json"), "w"), indent=1)
print("MANIFEST.json: %d checks, %d not_applicable" % (len(checks), len(na)))
